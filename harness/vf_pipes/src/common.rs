//! Case runner shared by the three properties: executes one scripted case under a `Chooser`,
//! collects faults, re-executes failing cases, keeps the smallest representative per violation key.
use std::collections::{BTreeMap, HashMap};
use std::rc::Rc;
use std::sync::Mutex;

use vf_explore::{Chooser, Stats, Value, catch, explore, hash_of, json, ncpu, par_map};

use crate::env::{Env, Fault, Hint, Script};

/// Per-execution context handed to a case function.
pub struct Cx {
    pub env: Rc<Env>,
    /// The shard's fixed input (C11/C12: first item sequence; C13: configuration + first input).
    pub a: Vec<u8>,
    pub max_len: usize,
    pub thorough: bool,
    /// Build the human-readable `CaseOut::params` (only needed for samples and violation texts).
    pub want_params: bool,
}

impl Cx {
    /// A scripted pull over `items`; in thorough its size-hint mode is a free choice.
    pub fn script<const FUSED: bool, T>(&self, id: u8, items: impl IntoIterator<Item = T>) -> Script<T, FUSED> {
        let hint = if self.thorough && self.env.free(2) == 1 { Hint::Loose } else { Hint::Exact };
        Script::new(&self.env, id, items, hint)
    }
    /// Script with the exact hint, no choice point.
    pub fn script_exact<const FUSED: bool, T>(&self, id: u8, items: impl IntoIterator<Item = T>) -> Script<T, FUSED> {
        Script::new(&self.env, id, items, Hint::Exact)
    }
    pub fn free_seq(&self) -> Vec<u8> {
        self.env.free_seq(self.max_len, 3)
    }
}

pub struct CaseOut {
    /// Human-readable parameters / free inputs of the case (for keys of distinct cases and reports).
    pub params: String,
    /// Hash of what was observed (delivered items, number of Pending steps, ...).
    pub observed: u64,
    /// Hash of the schedule-independent part of the result (differential check), if any.
    pub diff: Option<u64>,
}

pub type CaseFn = fn(&Cx) -> CaseOut;

pub struct Section {
    pub name: &'static str,
    pub f: CaseFn,
    pub thorough_only: bool,
    /// Compare `CaseOut::diff` across all schedules of the same inputs.
    pub differential: bool,
    /// Upper limit on the input length for this section (two-level compositions: 3).
    pub len_cap: usize,
}

pub const fn sec(name: &'static str, f: CaseFn) -> Section {
    Section { name, f, thorough_only: false, differential: false, len_cap: usize::MAX }
}
pub const fn sec_thorough(name: &'static str, f: CaseFn) -> Section {
    Section { name, f, thorough_only: true, differential: false, len_cap: 3 }
}

pub struct CaseRes {
    pub choices: Vec<usize>,
    pub free_key: Vec<usize>,
    pub params: String,
    pub observed: u64,
    pub diff: Option<u64>,
    pub faults: Vec<Fault>,
    pub pend_count: u32,
    /// Event log of the scripted environment (only recorded under `--replay`).
    pub trace: Vec<String>,
}

pub struct Tier {
    pub max_len: usize,
    pub k: usize,
    pub thorough: bool,
}

/// Execute one case: the chooser is moved into a fresh `Env` for the duration of the case.
pub fn exec_case(s: &Section, a: &[u8], t: &Tier, ch: &mut Chooser, want_params: bool) -> CaseRes {
    let env = Env::new(std::mem::replace(ch, Chooser::replay(vec![])));
    if want_params && trace_enabled() {
        env.enable_trace();
    }
    let cx = Cx { env: env.clone(), a: a.to_vec(), max_len: t.max_len.min(s.len_cap), thorough: t.thorough, want_params };
    let r = catch(|| (s.f)(&cx));
    drop(cx);
    *ch = env.take_chooser();
    let mut faults = std::mem::take(&mut *env.faults.borrow_mut());
    let (params, observed, diff) = match r {
        Ok(o) => (o.params, o.observed, o.diff),
        Err(msg) => {
            if msg.starts_with("VF-REPOLL") {
                faults.push(Fault { kind: "repoll-after-ended".into(), detail: msg.clone() });
            } else {
                faults.push(Fault { kind: "panic".into(), detail: msg.clone() });
            }
            (String::from("(panicked)"), hash_of(&msg), None)
        }
    };
    let free_key = ch.trace.iter().filter(|p| !p.costly).map(|p| p.choice).collect();
    let trace = env.take_trace();
    CaseRes { choices: ch.choices(), free_key, params, observed, diff, faults, pend_count: env.pend_count.get(), trace }
}

static TRACE: std::sync::atomic::AtomicBool = std::sync::atomic::AtomicBool::new(false);
fn trace_enabled() -> bool {
    TRACE.load(std::sync::atomic::Ordering::Relaxed)
}

type Rank = (usize, usize, Vec<usize>, Vec<u8>);
static BEST: Mutex<BTreeMap<String, (Rank, String, Value)>> = Mutex::new(BTreeMap::new());

fn note_violation(st: &mut Stats, key: String, rank: Rank, what: String, replay: Value) {
    st.violations_total += 1;
    let mut b = BEST.lock().unwrap();
    match b.get(&key) {
        Some((r, _, _)) if *r <= rank => {}
        _ => {
            b.insert(key, (rank, what, replay));
        }
    }
}

pub fn replay_value(prop: &str, s: &Section, a: &[u8], t: &Tier, choices: &[usize]) -> Value {
    json!({"property": prop, "section": s.name, "shard": a, "max_len": t.max_len, "thorough": t.thorough,
           "k": t.k, "choices": choices})
}

/// Run one section: `par_map` over shards, deviation-bounded exploration inside each shard.
pub fn run_section(prop: &str, s: &Section, shards: &[Vec<u8>], t: &Tier, cap_per_shard: u64) -> Stats {
    let shards: Vec<&Vec<u8>> = shards.iter().filter(|a| prop == "C13" || a.len() <= s.len_cap).collect();
    let mut st = par_map(shards.len(), ncpu().min(16), |i| {
        let a = shards[i];
        let mut st = Stats::new();
        let mut diffs: HashMap<Vec<usize>, (u64, Vec<usize>)> = HashMap::new();
        let es = explore(Some(t.k), cap_per_shard, |ch| {
            let mut res = exec_case(s, a, t, ch, false);
            st.eval();
            if res.pend_count > 0 && (!res.free_key.is_empty() || !a.is_empty()) {
                st.nontrivial(&(s.name, a, &res.free_key));
            }
            st.outcome(&(s.name, res.observed));
            st.sample(|| {
                let r = exec_case(s, a, t, &mut Chooser::replay(res.choices.clone()), true);
                json!({"section": s.name, "shard": a, "params": r.params, "choices": res.choices,
                       "pendings_injected": res.pend_count, "faults": res.faults.len()})
            });
            if s.differential
                && let Some(d) = res.diff
            {
                match diffs.get(&res.free_key) {
                    None => {
                        diffs.insert(res.free_key.clone(), (d, res.choices.clone()));
                    }
                    Some((d0, c0)) if *d0 != d => res.faults.push(Fault {
                        kind: "schedule-dependence".into(),
                        detail: format!("result differs from the one under schedule {c0:?} of the same inputs"),
                    }),
                    _ => {}
                }
            }
            if !res.faults.is_empty() {
                // Re-execute once through the plain replay path before believing it.
                let mut ch2 = Chooser::replay(res.choices.clone());
                let res2 = exec_case(s, a, t, &mut ch2, true);
                let kinds = |r: &CaseRes| {
                    r.faults.iter().filter(|f| f.kind != "schedule-dependence").map(|f| f.kind.clone()).collect::<Vec<_>>()
                };
                if kinds(&res) != kinds(&res2) || res.observed != res2.observed {
                    println!(
                        "MACHINERY-ERROR: property={prop} case {}/{a:?}/{:?} did not reproduce ({:?} vs {:?})",
                        s.name,
                        res.choices,
                        kinds(&res),
                        kinds(&res2)
                    );
                    std::process::exit(2);
                }
                let mut seen = vec![];
                for f in &res.faults {
                    if seen.contains(&f.kind) {
                        continue;
                    }
                    seen.push(f.kind.clone());
                    let key = format!("{prop}/{}/{}", s.name, f.kind);
                    let what = format!(
                        "{}: {} — {} [shard input {:?}, {}, choices {:?}]",
                        s.name, f.kind, f.detail, a, res2.params, res.choices
                    );
                    let rank: Rank = (a.len() + res.free_key.len(), res.choices.len(), res.choices.clone(), a.clone());
                    note_violation(&mut st, key, rank, what, replay_value(prop, s, a, t, &res.choices));
                }
            }
        });
        if es.capped {
            st.cap(format!("section {} shard {a:?}: execution cap {cap_per_shard} hit", s.name));
        }
        st
    });
    // Deterministic representative (smallest case) per violation key.
    let best = std::mem::take(&mut *BEST.lock().unwrap());
    for (key, (_, what, replay)) in best {
        st.violations.push(vf_explore::Violation { key, what, replay });
    }
    st
}

/// `--replay`: re-execute the stored case through `exec_case` only.
pub fn replay(prop: &str, sections: &[Section], case: &Value) -> i32 {
    let name = case["section"].as_str().unwrap_or("");
    let Some(s) = sections.iter().find(|s| s.name == name) else {
        println!("MACHINERY-ERROR: unknown section {name:?} in replay file");
        return 2;
    };
    let a: Vec<u8> = case["shard"].as_array().map(|v| v.iter().map(|x| x.as_u64().unwrap() as u8).collect()).unwrap_or_default();
    let choices: Vec<usize> =
        case["choices"].as_array().map(|v| v.iter().map(|x| x.as_u64().unwrap() as usize).collect()).unwrap_or_default();
    let t = Tier {
        max_len: case["max_len"].as_u64().unwrap_or(3) as usize,
        k: case["k"].as_u64().unwrap_or(2) as usize,
        thorough: case["thorough"].as_bool().unwrap_or(false),
    };
    let mut ch = Chooser::replay(choices);
    TRACE.store(true, std::sync::atomic::Ordering::Relaxed);
    let res = exec_case(s, &a, &t, &mut ch, true);
    println!("replay {prop}/{name} shard={a:?} params={} choices={:?}", res.params, res.choices);
    println!("  injected pendings: {}, observed hash: {:016x}", res.pend_count, res.observed);
    println!("  event trace (scripted environment answers, `=>` = what the driver saw):");
    for l in &res.trace {
        println!("    | {l}");
    }
    if res.faults.is_empty() {
        println!("  no fault observed");
        return 0;
    }
    for f in &res.faults {
        println!("  FAULT {}: {}", f.kind, f.detail);
    }
    println!("VIOLATION property={prop} (replayed)");
    1
}
