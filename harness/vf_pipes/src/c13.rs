//! C13 — symmetric hash join emits exactly the join of everything that arrived.
//!
//! Shard layout (`Cx::a`): `[n_ticks, kind, persist_l, persist_r, mode_1 .. mode_n, L1 items...]`
//!   kind: 0 Set×Set, 1 Multiset×Multiset, 2 Set×Multiset, 3 Multiset×Set
//!   persist_x: 0 = `'tick` (state cleared at tick end, as the join ops do), 1 = `'static` (kept)
//!   mode_i: 1 = `is_new_tick = true` (drain, then `NewTickJoinIter`), 0 = incremental
//!   items are encoded as `key * 2 + value` over keys {0,1} × values {0,1}.
//! The remaining inputs (R1, and L/R of later ticks) are enumerated with free choices.
use std::pin::pin;
use std::sync::atomic::{AtomicU64, Ordering};

use dfir_pipes::pull::{HalfJoinState, HalfMultisetJoinState, HalfSetJoinState, Pull, symmetric_hash_join};
use vf_explore::hash_of;

use crate::common::{CaseOut, Cx, Section};
use crate::env::{Hint, Script, drive_future, drive_pull};

pub static NEWTICK_LHS_SMALLER: AtomicU64 = AtomicU64::new(0);
pub static NEWTICK_RHS_SMALLER: AtomicU64 = AtomicU64::new(0);
pub static NEWTICK_EQUAL: AtomicU64 = AtomicU64::new(0);

type Kv = (u8, u8);
type Out = (u8, (u8, u8));

fn dec(e: u8) -> Kv {
    (e / 2, e % 2)
}

/// Reference model of one half: insertion-ordered entries; set semantics drop duplicates.
#[derive(Clone, Default)]
struct Half {
    set: bool,
    entries: Vec<Kv>,
}
impl Half {
    fn build(&mut self, kv: Kv) {
        if self.set && self.entries.contains(&kv) {
            return;
        }
        self.entries.push(kv);
    }
}
fn join(l: &Half, r: &Half) -> Vec<Out> {
    let mut out = vec![];
    for (k1, v1) in &l.entries {
        for (k2, v2) in &r.entries {
            if k1 == k2 {
                out.push((*k1, (*v1, *v2)));
            }
        }
    }
    out.sort();
    out
}
/// Multiset difference `a − b` of sorted vectors.
fn msub(a: &[Out], b: &[Out]) -> Vec<Out> {
    let mut rest = b.to_vec();
    let mut out = vec![];
    for x in a {
        if let Some(i) = rest.iter().position(|y| y == x) {
            rest.remove(i);
        } else {
            out.push(*x);
        }
    }
    out
}

struct TickObs {
    emitted: Vec<Out>,
    pendings: u32,
}

/// One tick through the real `symmetric_hash_join` entry point, invoked the way the join ops do
/// (`Pull::fuse` around each input, `&mut` states).
fn run_tick<LS, RS>(cx: &Cx, ls: &mut LS, rs: &mut RS, l: &[Kv], r: &[Kv], new_tick: bool, want_len: usize) -> TickObs
where
    LS: HalfJoinState<u8, u8, u8>,
    RS: HalfJoinState<u8, u8, u8>,
{
    let lp = Script::<Kv, false>::new(&cx.env, 0, l.iter().copied(), Hint::Exact).fuse();
    let rp = Script::<Kv, false>::new(&cx.env, 1, r.iter().copied(), Hint::Exact).fuse();
    let fut = symmetric_hash_join(lp, rp, ls, rs, new_tick);
    let (pull, p1) = drive_future(&cx.env, pin!(fut));
    let Some(pull) = pull else {
        return TickObs { emitted: vec![], pendings: p1 };
    };
    let obs = drive_pull(&cx.env, pin!(pull), want_len, 0);
    TickObs { emitted: obs.items, pendings: p1 + obs.pendings }
}

fn history<LS, RS>(cx: &Cx, set_l: bool, set_r: bool) -> CaseOut
where
    LS: HalfJoinState<u8, u8, u8> + Default,
    RS: HalfJoinState<u8, u8, u8> + Default,
{
    let a = &cx.a;
    let n_ticks = a[0] as usize;
    let (persist_l, persist_r) = (a[2] == 1, a[3] == 1);
    let modes: Vec<bool> = a[4..4 + n_ticks].iter().map(|m| *m == 1).collect();
    let l1: Vec<Kv> = a[4 + n_ticks..].iter().map(|e| dec(*e)).collect();
    // Items per side: first tick up to max_len, later ticks up to 1 (2 ticks in thorough: see main).
    let later_max = 1;

    let mut ls = LS::default();
    let mut rs = RS::default();
    let mut ml = Half { set: set_l, entries: vec![] };
    let mut mr = Half { set: set_r, entries: vec![] };
    let mut params = String::new();
    let mut all_sorted: Vec<Vec<Out>> = vec![];
    let mut orders: Vec<Vec<Out>> = vec![];
    let mut pend = 0;

    for t in 0..n_ticks {
        let l: Vec<Kv> = if t == 0 { l1.clone() } else { cx.env.free_seq(later_max, 4).into_iter().map(dec).collect() };
        let r: Vec<Kv> = cx.env.free_seq(if t == 0 { cx.max_len } else { later_max }, 4).into_iter().map(dec).collect();
        if cx.want_params {
            params += &format!("tick{}[{} L={l:?} R={r:?}] ", t + 1, if modes[t] { "new" } else { "incr" });
        }

        let before = join(&ml, &mr);
        let (bl, br) = (ml.entries.clone(), mr.entries.clone());
        for kv in &l {
            ml.build(*kv);
        }
        for kv in &r {
            mr.build(*kv);
        }
        let after = join(&ml, &mr);
        let want = if modes[t] { after.clone() } else { msub(&after, &before) };
        if modes[t] {
            // Which side `NewTickJoinIter` iterates (`lhs_state.len() < rhs_state.len()`).
            let c = match ml.entries.len().cmp(&mr.entries.len()) {
                std::cmp::Ordering::Less => &NEWTICK_LHS_SMALLER,
                std::cmp::Ordering::Greater => &NEWTICK_RHS_SMALLER,
                std::cmp::Ordering::Equal => &NEWTICK_EQUAL,
            };
            c.fetch_add(1, Ordering::Relaxed);
        }

        let obs = run_tick(cx, &mut ls, &mut rs, &l, &r, modes[t], want.len());
        pend += obs.pendings;
        let mut got = obs.emitted.clone();
        got.sort();
        if got != want {
            cx.env.fault(
                if modes[t] { "join-mismatch:new-tick" } else { "join-mismatch:incremental" },
                format!(
                    "tick {}: expected multiset {want:?}, emitted {:?} (state before: L={:?} R={:?})",
                    t + 1,
                    obs.emitted,
                    bl,
                    br
                ),
            );
        }
        all_sorted.push(got);
        orders.push(obs.emitted);
        // Tick end, as `write_tick_end` of the join ops.
        if !persist_l {
            ls.clear();
            ml.entries.clear();
        }
        if !persist_r {
            rs.clear();
            mr.entries.clear();
        }
    }
    let arrivals = cx.env.arrivals.borrow().clone();
    CaseOut { params, observed: hash_of(&(&orders, &arrivals, pend)), diff: Some(hash_of(&all_sorted)) }
}

fn join_case(cx: &Cx) -> CaseOut {
    match cx.a[1] {
        0 => history::<HalfSetJoinState<u8, u8, u8>, HalfSetJoinState<u8, u8, u8>>(cx, true, true),
        1 => history::<HalfMultisetJoinState<u8, u8, u8>, HalfMultisetJoinState<u8, u8, u8>>(cx, false, false),
        2 => history::<HalfSetJoinState<u8, u8, u8>, HalfMultisetJoinState<u8, u8, u8>>(cx, true, false),
        _ => history::<HalfMultisetJoinState<u8, u8, u8>, HalfSetJoinState<u8, u8, u8>>(cx, false, true),
    }
}

pub static SECTIONS: &[Section] = &[
    Section { name: "join_1tick", f: join_case, thorough_only: false, differential: true, len_cap: usize::MAX },
    Section { name: "join_2tick", f: join_case, thorough_only: false, differential: true, len_cap: usize::MAX },
    Section { name: "join_3tick", f: join_case, thorough_only: false, differential: true, len_cap: usize::MAX },
];

/// Shards of a section: every (kind, persistence, mode vector, first left input).
pub fn shards(n_ticks: usize, l1_max: usize, reduced: bool) -> Vec<Vec<u8>> {
    let l1s = vf_explore::combi::sequences_upto(&[0u8, 1, 2, 3], l1_max);
    let mut out = vec![];
    // `reduced` (quick tier, 3-tick histories): only the two homogeneous state kinds.
    let kinds: &[u8] = if reduced { &[0, 1] } else { &[0, 1, 2, 3] };
    for &kind in kinds {
        // With a single tick the persistence flags cannot matter.
        let persists: Vec<(u8, u8)> = if n_ticks == 1 {
            vec![(0, 0)]
        } else if n_ticks == 3 {
            // 3-tick histories without any persisting side are three independent ticks.
            vec![(0, 1), (1, 0), (1, 1)]
        } else {
            vec![(0, 0), (0, 1), (1, 0), (1, 1)]
        };
        for (pl, pr) in persists {
            for modes in vf_explore::combi::sequences(&[1u8, 0], n_ticks) {
                for l1 in &l1s {
                    let mut s = vec![n_ticks as u8, kind, pl, pr];
                    s.extend(&modes);
                    s.extend(l1);
                    out.push(s);
                }
            }
        }
    }
    out
}
