//! vf_pipes — bounded-exhaustive checks of dfir_pipes (C11 pull combinators, C12 push combinators,
//! C13 symmetric hash join) with scripted environments under the deviation-bounded explorer.
mod c11;
mod c12;
mod c13;
mod common;
mod env;

use std::sync::atomic::Ordering;

use common::{Section, Tier, run_section};
use vf_explore::{Report, Value, cli, combi, quiet_panics, serde_json};

const CAP_PER_SHARD: u64 = 200_000_000;

fn sections_of(prop: &str) -> &'static [Section] {
    match prop {
        "C11" => c11::SECTIONS,
        "C12" => c12::SECTIONS,
        "C13" => c13::SECTIONS,
        _ => {
            eprintln!("vf_pipes serves C11, C12, C13 (got {prop})");
            std::process::exit(2);
        }
    }
}

fn main() {
    let cli = cli();
    quiet_panics();
    let sections = sections_of(&cli.property);
    if let Some(path) = &cli.replay {
        let txt = std::fs::read_to_string(path).unwrap_or_else(|e| {
            println!("MACHINERY-ERROR: cannot read replay file {path}: {e}");
            std::process::exit(2)
        });
        let v: Value = serde_json::from_str(&txt).expect("replay file is not JSON");
        std::process::exit(common::replay(&cli.property, sections, &v["case"]));
    }
    let mut rep = Report::new(&cli.property, &cli.tier, "vf_pipes");
    let thorough = rep.thorough();
    rep.assume("scripted upstreams/downstreams/futures/streams written in the harness are the environment; the combinators, join states and drivers-under-test are the real /repo/dfir_pipes code");
    rep.assume("Pending placements are bounded by the deviation bound k (total per execution); inputs by the stated alphabet and length");
    rep.assume("no real wakers: drivers re-poll after Pending (wake-up correctness is not part of these properties)");
    match cli.property.as_str() {
        "C11" => {
            let t = if thorough { Tier { max_len: 4, k: 3, thorough } } else { Tier { max_len: 3, k: 2, thorough } };
            rep.rule = "one execution = (combinator, parameters, input sequence(s) over {0,1,2}, size-hint mode, fusedness of the scripted upstreams, placement of <= k Pending answers over all polls of all scripted sources incl. before Ended); distinct non-trivial = distinct (combinator, parameters, inputs) with >= 1 item or free input that ran under >= 1 schedule with an injected Pending".into();
            rep.explanation = "real dfir_pipes pull combinators over scripted Pull/Stream/Future sources vs the std::iter (itertools for zip_longest) adapter on the same item sequences: delivered items equal in order; FusedPull types return Ended on 3 further pulls; non-fused scripted upstreams panic if re-polled after Ended; before every pull size_hint().0 <= remaining <= size_hint().1; a Pending step requires a Pending source in that call".into();
            rep.bound("max_len", t.max_len);
            rep.bound("max_len_two_level_compositions", 3);
            rep.bound("alphabet", 3);
            rep.bound("pending_deviation_bound_total", t.k);
            let shards = combi::sequences_upto(&[0u8, 1, 2], t.max_len);
            for s in sections {
                if s.thorough_only && !thorough {
                    continue;
                }
                let st = run_section("C11", s, &shards, &t, CAP_PER_SHARD);
                rep.section(s.name, st);
            }
        }
        "C12" => {
            let t = if thorough { Tier { max_len: 5, k: 4, thorough } } else { Tier { max_len: 3, k: 2, thorough } };
            rep.rule = "one execution = (combinator, parameters, input sequence over {0,1,2}, placement of <= k Pending answers over all poll_ready/poll_finalize calls of all scripted downstreams and all polls of scripted futures/streams/pulls); distinct non-trivial = distinct (combinator, parameters, input) that ran under >= 1 schedule with an injected Pending".into();
            rep.explanation = "real dfir_pipes push combinators fed by the canonical driver (poll_ready until Done, start_send, ..., poll_finalize until Done) into scripted protocol-checking pushes: per downstream the received items equal the reference semantics (in order; multisets for hash-map emission), every start_send is preceded by a Done from poll_ready (latest answer Done), nothing is sent after finalize completed, every downstream is finalized".into();
            rep.bound("max_len", t.max_len);
            rep.bound("alphabet", 3);
            rep.bound("pending_deviation_bound_total", t.k);
            let shards = combi::sequences_upto(&[0u8, 1, 2], t.max_len);
            for s in sections {
                if s.thorough_only && !thorough {
                    continue;
                }
                let st = run_section("C12", s, &shards, &t, CAP_PER_SHARD);
                rep.section(s.name, st);
            }
        }
        "C13" => {
            rep.rule = "one execution = (state kinds, per-side persistence, is_new_tick per tick, left/right item sequences per tick over keys{0,1}xvalues{0,1} with duplicates, placement of <= k Pending answers over all polls of both scripted inputs); distinct non-trivial = distinct (configuration, inputs) that ran under >= 1 schedule with an injected Pending".into();
            rep.explanation = "real symmetric_hash_join (called as the join ops do: fused inputs, &mut states, clear per 'tick side at tick end) vs a nested-loop join over insertion-ordered models (sets deduplicated, multisets kept): new-tick mode emits join(L,R) of the built states, incremental mode emits join(after) - join(before), as multisets; every schedule of the same inputs gives the same multiset".into();
            let k = if thorough { 3 } else { 2 };
            rep.bound("pending_deviation_bound_total", k);
            rep.bound("items_per_side_1tick", if thorough { 3 } else { 2 });
            rep.bound("items_per_side_2tick", if thorough { "tick1 <= 2, tick2 <= 1" } else { "<= 1 per tick" });
            rep.bound("items_per_side_3tick", if thorough { "<= 1 per tick; at least one side 'static" } else { "<= 1 per tick; kinds SetxSet and MultisetxMultiset; at least one side 'static" });
            let plan: [(usize, usize, usize); 3] = if thorough { [(1, 3, 3), (2, 2, 2), (3, 1, 2)] } else { [(1, 2, 2), (2, 1, 2), (3, 1, 1)] };
            for (s, (n_ticks, max_len, k)) in sections.iter().zip(plan) {
                let t = Tier { max_len, k, thorough };
                rep.bound(&format!("k_{}", s.name), k);
                let shards = c13::shards(n_ticks, max_len, !thorough && n_ticks == 3);
                let st = run_section("C13", s, &shards, &t, CAP_PER_SHARD);
                rep.section(s.name, st);
            }
            rep.bound("newtick_ticks_lhs_smaller", c13::NEWTICK_LHS_SMALLER.load(Ordering::Relaxed));
            rep.bound("newtick_ticks_rhs_smaller", c13::NEWTICK_RHS_SMALLER.load(Ordering::Relaxed));
            rep.bound("newtick_ticks_equal_len", c13::NEWTICK_EQUAL.load(Ordering::Relaxed));
        }
        _ => unreachable!(),
    }
    rep.finish();
}
