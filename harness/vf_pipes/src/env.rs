//! Scripted environment shared by the C11/C12/C13 harnesses.
//!
//! Every scripted source (pull / stream / future) and every scripted downstream (push / sink)
//! asks the deviation-bounded `Chooser` whether to answer `Pending` at *each* poll (choice 0 =
//! the boring answer `Ready`). All of them share one `Env`, which also records
//!   * whether any scripted object answered `Pending` during the current top-level call
//!     (oracle: a combinator may only pend if something below it did),
//!   * protocol faults observed by the checking objects,
//!   * the order in which sources handed out items (arrival interleaving, C13).
use std::cell::{Cell, RefCell};
use std::collections::VecDeque;
use std::future::Future;
use std::pin::Pin;
use std::rc::Rc;
use std::task::{Context as TaskCx, Poll, Waker};

use dfir_pipes::pull::{FusedPull, Pull, PullStep};
use dfir_pipes::push::{Push, PushStep};
use dfir_pipes::{FusedStream, Sink, Stream, Yes};
use vf_explore::Chooser;

/// Max number of driver steps before a run is declared non-terminating.
pub const STEP_CAP: usize = 200;

#[derive(Clone, Debug)]
pub struct Fault {
    /// Canonical short kind; becomes part of the violation key.
    pub kind: String,
    pub detail: String,
}

pub struct Env {
    ch: RefCell<Chooser>,
    /// Some scripted object answered Pending since the driver last cleared the flag.
    pub pended: Cell<bool>,
    /// Total number of injected Pending answers in this execution.
    pub pend_count: Cell<u32>,
    pub faults: RefCell<Vec<Fault>>,
    /// Source ids in the order in which they handed out items.
    pub arrivals: RefCell<Vec<u8>>,
    /// Bitmask of source ids that have really ended.
    pub ended_mask: Cell<u32>,
    /// Number of polls of an already-ended *fused* source (allowed; counted for information).
    pub fused_repolls: Cell<u32>,
    /// Event log (answers of the scripted objects), only kept under `--replay`.
    trace: RefCell<Option<Vec<String>>>,
}

impl Env {
    pub fn enable_trace(&self) {
        *self.trace.borrow_mut() = Some(vec![]);
    }
    pub fn take_trace(&self) -> Vec<String> {
        self.trace.borrow_mut().take().unwrap_or_default()
    }
    #[inline]
    pub fn log(&self, f: impl FnOnce() -> String) {
        if let Some(t) = self.trace.borrow_mut().as_mut() {
            t.push(f());
        }
    }
    pub fn new(ch: Chooser) -> Rc<Self> {
        Rc::new(Env {
            ch: RefCell::new(ch),
            pended: Cell::new(false),
            pend_count: Cell::new(0),
            faults: RefCell::new(vec![]),
            arrivals: RefCell::new(vec![]),
            ended_mask: Cell::new(0),
            fused_repolls: Cell::new(0),
            trace: RefCell::new(None),
        })
    }
    /// Move the chooser back out (the `Env` may still be referenced by dropped-later scripts).
    pub fn take_chooser(&self) -> Chooser {
        std::mem::replace(&mut *self.ch.borrow_mut(), Chooser::replay(vec![]))
    }
    /// Costly choice: answer Pending at this poll?
    pub fn pend(&self) -> bool {
        let p = self.ch.borrow_mut().choose(2) == 1;
        if p {
            self.pended.set(true);
            self.pend_count.set(self.pend_count.get() + 1);
        }
        p
    }
    /// Free (input enumeration) choice.
    pub fn free(&self, n: usize) -> usize {
        self.ch.borrow_mut().choose_free(n)
    }
    /// A sequence over `0..alphabet` of length `0..=max_len`, enumerated with free choices.
    pub fn free_seq(&self, max_len: usize, alphabet: usize) -> Vec<u8> {
        let len = self.free(max_len + 1);
        (0..len).map(|_| self.free(alphabet) as u8).collect()
    }
    pub fn fault(&self, kind: impl Into<String>, detail: impl Into<String>) {
        let mut f = self.faults.borrow_mut();
        if f.len() < 16 {
            f.push(Fault { kind: kind.into(), detail: detail.into() });
        }
    }
    pub fn source_ended(&self, id: u8) -> bool {
        self.ended_mask.get() >> id & 1 == 1
    }
    fn mark_ended(&self, id: u8) {
        self.ended_mask.set(self.ended_mask.get() | 1 << id);
    }
}

#[derive(Clone, Copy, Debug, PartialEq, Eq)]
pub enum Hint {
    /// `(remaining, Some(remaining))` — the tightest legal hint.
    Exact,
    /// `(0, None)`.
    Loose,
}

// ------------------------------------------------------------------------------------------------
// Scripted pull
// ------------------------------------------------------------------------------------------------

/// A scripted upstream `Pull`. Hands out `items` in order, then `Ended`; before *every* answer
/// (including the final `Ended`) the chooser may inject a `Pending`.
/// `FUSED = true`: implements `FusedPull` and keeps answering `Ended`.
/// `FUSED = false`: panics (`VF-REPOLL`) when pulled again after it answered `Ended`.
pub struct Script<T, const FUSED: bool> {
    env: Rc<Env>,
    id: u8,
    items: VecDeque<T>,
    ended: bool,
    hint: Hint,
}

impl<T, const FUSED: bool> Script<T, FUSED> {
    pub fn new(env: &Rc<Env>, id: u8, items: impl IntoIterator<Item = T>, hint: Hint) -> Self {
        Script { env: env.clone(), id, items: items.into_iter().collect(), ended: false, hint }
    }
}

impl<T, const FUSED: bool> Unpin for Script<T, FUSED> {}

impl<T, const FUSED: bool> Pull for Script<T, FUSED> {
    type Ctx<'ctx> = ();
    type Item = T;
    type Meta = ();
    type CanPend = Yes;
    type CanEnd = Yes;

    fn pull(self: Pin<&mut Self>, _ctx: &mut ()) -> PullStep<T, (), Yes, Yes> {
        let this = self.get_mut();
        if this.ended {
            if FUSED {
                this.env.fused_repolls.set(this.env.fused_repolls.get() + 1);
                return PullStep::Ended(Yes);
            }
            panic!("VF-REPOLL: non-fused upstream #{} pulled again after it returned Ended", this.id);
        }
        if this.env.pend() {
            this.env.log(|| format!("pull source #{}: Pending", this.id));
            return PullStep::Pending(Yes);
        }
        match this.items.pop_front() {
            Some(x) => {
                this.env.arrivals.borrow_mut().push(this.id);
                this.env.log(|| format!("pull source #{}: Ready (item {} of its script)", this.id, this.env.arrivals.borrow().iter().filter(|i| **i == this.id).count()));
                PullStep::Ready(x, ())
            }
            None => {
                this.ended = true;
                this.env.mark_ended(this.id);
                this.env.log(|| format!("pull source #{}: Ended", this.id));
                PullStep::Ended(Yes)
            }
        }
    }

    fn size_hint(&self) -> (usize, Option<usize>) {
        match self.hint {
            Hint::Exact => (self.items.len(), Some(self.items.len())),
            Hint::Loose => (0, None),
        }
    }
}

impl<T> FusedPull for Script<T, true> {}

// ------------------------------------------------------------------------------------------------
// Scripted stream / future
// ------------------------------------------------------------------------------------------------

/// Scripted `futures::Stream`; same answer discipline as `Script`. Wakes its waker when pending.
pub struct ScriptStream<T, const FUSED: bool> {
    env: Rc<Env>,
    id: u8,
    items: VecDeque<T>,
    ended: bool,
}

impl<T, const FUSED: bool> ScriptStream<T, FUSED> {
    pub fn new(env: &Rc<Env>, id: u8, items: impl IntoIterator<Item = T>) -> Self {
        ScriptStream { env: env.clone(), id, items: items.into_iter().collect(), ended: false }
    }
}

impl<T, const FUSED: bool> Unpin for ScriptStream<T, FUSED> {}

impl<T, const FUSED: bool> Stream for ScriptStream<T, FUSED> {
    type Item = T;
    fn poll_next(self: Pin<&mut Self>, cx: &mut TaskCx<'_>) -> Poll<Option<T>> {
        let this = self.get_mut();
        if this.ended {
            if FUSED {
                this.env.fused_repolls.set(this.env.fused_repolls.get() + 1);
                return Poll::Ready(None);
            }
            panic!("VF-REPOLL: non-fused stream #{} polled again after it returned None", this.id);
        }
        if this.env.pend() {
            cx.waker().wake_by_ref();
            this.env.log(|| format!("stream #{}: Pending", this.id));
            return Poll::Pending;
        }
        this.env.log(|| format!("stream #{}: {}", this.id, if this.items.is_empty() { "None" } else { "Some(item)" }));
        match this.items.pop_front() {
            Some(x) => {
                this.env.arrivals.borrow_mut().push(this.id);
                Poll::Ready(Some(x))
            }
            None => {
                this.ended = true;
                this.env.mark_ended(this.id);
                Poll::Ready(None)
            }
        }
    }
    fn size_hint(&self) -> (usize, Option<usize>) {
        (self.items.len(), Some(self.items.len()))
    }
}

impl<T> FusedStream for ScriptStream<T, true> {
    fn is_terminated(&self) -> bool {
        self.ended
    }
}

/// Scripted future: pends while the chooser says so, then resolves to `out`.
pub struct ScriptFut<O> {
    env: Rc<Env>,
    out: Option<O>,
}

impl<O> ScriptFut<O> {
    pub fn new(env: &Rc<Env>, out: O) -> Self {
        ScriptFut { env: env.clone(), out: Some(out) }
    }
}

impl<O> Unpin for ScriptFut<O> {}

impl<O> Future for ScriptFut<O> {
    type Output = O;
    fn poll(self: Pin<&mut Self>, cx: &mut TaskCx<'_>) -> Poll<O> {
        let this = self.get_mut();
        if this.out.is_none() {
            panic!("VF-REPOLL: scripted future polled again after it completed");
        }
        if this.env.pend() {
            cx.waker().wake_by_ref();
            this.env.log(|| "future: Pending".to_string());
            return Poll::Pending;
        }
        this.env.log(|| "future: Ready".to_string());
        Poll::Ready(this.out.take().unwrap())
    }
}

// ------------------------------------------------------------------------------------------------
// Protocol-checking push / sink
// ------------------------------------------------------------------------------------------------

/// What a checking downstream has seen.
pub struct Down<T> {
    pub id: u8,
    pub items: Vec<T>,
    /// 0 = no un-consumed readiness, 1 = last poll_ready answered Done and no send since,
    /// 2 = a Done was answered since the last send but a later poll_ready answered Pending.
    pub ready: u8,
    pub finalized: bool,
    /// poll_ready / poll_finalize calls after finalize completed (tolerated, counted).
    pub polls_after_final: u32,
    pub hints: Vec<(usize, Option<usize>)>,
    /// Sink only: number of items covered by the last completed flush / close.
    pub flushed_upto: usize,
    pub closed: bool,
}

pub type DownRef<T> = Rc<RefCell<Down<T>>>;

pub fn down<T>(id: u8) -> DownRef<T> {
    Rc::new(RefCell::new(Down {
        id,
        items: vec![],
        ready: 0,
        finalized: false,
        polls_after_final: 0,
        hints: vec![],
        flushed_upto: 0,
        closed: false,
    }))
}

/// Scripted protocol-checking `Push`: answers `Pending` at poll_ready / poll_finalize per the
/// chooser and records a fault when
///  * `start_send` arrives with no `Done` from `poll_ready` since the previous `start_send`
///    (`send-without-ready`),
///  * `start_send` arrives although the *latest* poll_ready answer was Pending
///    (`send-after-ready-revoked`; the rule of the repo's own `TestPush`),
///  * `start_send` arrives after `poll_finalize` returned `Done` (`send-after-finalize`).
pub struct CheckPush<T> {
    env: Rc<Env>,
    st: DownRef<T>,
}

impl<T> CheckPush<T> {
    pub fn new(env: &Rc<Env>, st: &DownRef<T>) -> Self {
        CheckPush { env: env.clone(), st: st.clone() }
    }
}

impl<T> Unpin for CheckPush<T> {}

impl<T> Push<T, ()> for CheckPush<T> {
    type Ctx<'ctx> = ();
    type CanPend = Yes;

    fn poll_ready(self: Pin<&mut Self>, _ctx: &mut ()) -> PushStep<Yes> {
        let mut d = self.st.borrow_mut();
        if d.finalized {
            d.polls_after_final += 1;
            return PushStep::Done;
        }
        if self.env.pend() {
            if d.ready == 1 {
                d.ready = 2;
            }
            self.env.log(|| format!("downstream {}: poll_ready -> Pending", d.id));
            return PushStep::Pending(Yes);
        }
        d.ready = 1;
        self.env.log(|| format!("downstream {}: poll_ready -> Done", d.id));
        PushStep::Done
    }

    fn start_send(self: Pin<&mut Self>, item: T, _meta: ()) {
        let mut d = self.st.borrow_mut();
        let id = d.id;
        if d.finalized {
            self.env.fault(
                format!("send-after-finalize@d{id}"),
                format!("start_send #{} on downstream {id} after its poll_finalize returned Done", d.items.len()),
            );
        } else {
            match d.ready {
                1 => {}
                2 => self.env.fault(
                    format!("send-after-ready-revoked@d{id}"),
                    format!("start_send #{} on downstream {id}: latest poll_ready answer was Pending", d.items.len()),
                ),
                _ => self.env.fault(
                    format!("send-without-ready@d{id}"),
                    format!("start_send #{} on downstream {id} without a Done from poll_ready since the previous send", d.items.len()),
                ),
            }
        }
        d.ready = 0;
        self.env.log(|| format!("downstream {}: start_send (item #{})", d.id, d.items.len()));
        d.items.push(item);
    }

    fn poll_finalize(self: Pin<&mut Self>, _ctx: &mut ()) -> PushStep<Yes> {
        let mut d = self.st.borrow_mut();
        if d.finalized {
            d.polls_after_final += 1;
            self.env.log(|| format!("downstream {}: poll_finalize again after Done -> Done", d.id));
            return PushStep::Done;
        }
        if self.env.pend() {
            self.env.log(|| format!("downstream {}: poll_finalize -> Pending", d.id));
            return PushStep::Pending(Yes);
        }
        d.finalized = true;
        self.env.log(|| format!("downstream {}: poll_finalize -> Done", d.id));
        PushStep::Done
    }

    fn size_hint(self: Pin<&mut Self>, hint: (usize, Option<usize>)) {
        self.st.borrow_mut().hints.push(hint);
    }
}

/// Scripted protocol-checking `futures::Sink`.
pub struct ScriptSink<T> {
    env: Rc<Env>,
    st: DownRef<T>,
}

impl<T> ScriptSink<T> {
    pub fn new(env: &Rc<Env>, st: &DownRef<T>) -> Self {
        ScriptSink { env: env.clone(), st: st.clone() }
    }
}

impl<T> Unpin for ScriptSink<T> {}

impl<T> Sink<T> for ScriptSink<T> {
    type Error = std::convert::Infallible;

    fn poll_ready(self: Pin<&mut Self>, cx: &mut TaskCx<'_>) -> Poll<Result<(), Self::Error>> {
        let mut d = self.st.borrow_mut();
        if d.closed {
            let id = d.id;
            self.env.fault(format!("sink-poll_ready-after-close@d{id}"), "poll_ready after poll_close completed");
            return Poll::Ready(Ok(()));
        }
        if self.env.pend() {
            cx.waker().wake_by_ref();
            if d.ready == 1 {
                d.ready = 2;
            }
            return Poll::Pending;
        }
        d.ready = 1;
        Poll::Ready(Ok(()))
    }

    fn start_send(self: Pin<&mut Self>, item: T) -> Result<(), Self::Error> {
        let mut d = self.st.borrow_mut();
        let id = d.id;
        if d.closed {
            self.env.fault(format!("send-after-finalize@d{id}"), "Sink::start_send after poll_close completed");
        } else {
            match d.ready {
                1 => {}
                2 => self.env.fault(
                    format!("send-after-ready-revoked@d{id}"),
                    format!("Sink::start_send #{}: latest poll_ready answer was Pending", d.items.len()),
                ),
                _ => self.env.fault(
                    format!("send-without-ready@d{id}"),
                    format!("Sink::start_send #{} without a preceding Ready(Ok) from poll_ready", d.items.len()),
                ),
            }
        }
        d.ready = 0;
        d.items.push(item);
        Ok(())
    }

    fn poll_flush(self: Pin<&mut Self>, cx: &mut TaskCx<'_>) -> Poll<Result<(), Self::Error>> {
        let mut d = self.st.borrow_mut();
        if d.closed {
            return Poll::Ready(Ok(()));
        }
        if self.env.pend() {
            cx.waker().wake_by_ref();
            return Poll::Pending;
        }
        d.flushed_upto = d.items.len();
        Poll::Ready(Ok(()))
    }

    fn poll_close(self: Pin<&mut Self>, cx: &mut TaskCx<'_>) -> Poll<Result<(), Self::Error>> {
        let mut d = self.st.borrow_mut();
        if d.closed {
            return Poll::Ready(Ok(()));
        }
        if self.env.pend() {
            cx.waker().wake_by_ref();
            return Poll::Pending;
        }
        d.flushed_upto = d.items.len();
        d.closed = true;
        Poll::Ready(Ok(()))
    }
}

// ------------------------------------------------------------------------------------------------
// Drivers
// ------------------------------------------------------------------------------------------------

pub struct PullObs<I> {
    pub items: Vec<I>,
    /// Number of Pending steps the combinator returned to the driver.
    pub pendings: u32,
}

fn check_hint(env: &Env, hint: (usize, Option<usize>), expected_len: usize, delivered: usize) {
    if delivered > expected_len {
        return; // already an item mismatch
    }
    let remaining = expected_len - delivered;
    if hint.0 > remaining {
        env.fault(
            "size_hint-lower",
            format!("size_hint() = {hint:?} before pull #{delivered}+ but only {remaining} item(s) remain"),
        );
    }
    if let Some(hi) = hint.1
        && hi < remaining
    {
        env.fault(
            "size_hint-upper",
            format!("size_hint() = {hint:?} after {delivered} item(s) but {remaining} item(s) are still produced"),
        );
    }
}

/// Pull `p` until its first `Ended`; then `extra` more pulls that must all be `Ended`
/// (only used for types that claim `FusedPull`).
/// Before every pull the size hint must bracket the number of items still to come
/// (`expected_len` is the reference run's length); a `Pending` step needs a pending source.
pub fn drive_pull<P: Pull>(env: &Env, mut p: Pin<&mut P>, expected_len: usize, extra: usize) -> PullObs<P::Item> {
    let mut tcx = TaskCx::from_waker(Waker::noop());
    let mut items = vec![];
    let mut pendings = 0;
    let mut steps = 0;
    loop {
        let h = p.size_hint();
        check_hint(env, h, expected_len, items.len());
        env.pended.set(false);
        let ctx = <P::Ctx<'_> as dfir_pipes::Context<'_>>::from_task(&mut tcx);
        let step = p.as_mut().pull(ctx);
        env.log(|| {
            let what = match &step {
                PullStep::Ready(..) => "Ready",
                PullStep::Pending(_) => "Pending",
                PullStep::Ended(_) => "Ended",
            };
            format!("  => combinator pull #{steps}: {what} (size_hint before it: {h:?})")
        });
        match step {
            PullStep::Ready(x, _) => items.push(x),
            PullStep::Pending(_) => {
                pendings += 1;
                if !env.pended.get() {
                    env.fault("spurious-pending", format!("Pending at step {steps} although no input pended in that call"));
                }
            }
            PullStep::Ended(_) => break,
        }
        steps += 1;
        if steps > STEP_CAP {
            env.fault("no-termination", format!("no Ended after {STEP_CAP} pulls"));
            return PullObs { items, pendings };
        }
    }
    for i in 0..extra {
        check_hint(env, p.size_hint(), expected_len, items.len());
        let ctx = <P::Ctx<'_> as dfir_pipes::Context<'_>>::from_task(&mut tcx);
        match p.as_mut().pull(ctx) {
            PullStep::Ended(_) => {}
            PullStep::Ready(..) => env.fault("not-fused", format!("pull #{} after Ended returned Ready", i + 1)),
            PullStep::Pending(_) => env.fault("not-fused", format!("pull #{} after Ended returned Pending", i + 1)),
        }
    }
    PullObs { items, pendings }
}

/// Same as `drive_pull` for a `futures::Stream`.
pub fn drive_stream<S: Stream>(env: &Env, mut s: Pin<&mut S>, expected_len: usize) -> PullObs<S::Item> {
    let mut tcx = TaskCx::from_waker(Waker::noop());
    let mut items = vec![];
    let mut pendings = 0;
    let mut steps = 0;
    loop {
        check_hint(env, s.size_hint(), expected_len, items.len());
        env.pended.set(false);
        match s.as_mut().poll_next(&mut tcx) {
            Poll::Ready(Some(x)) => items.push(x),
            Poll::Pending => {
                pendings += 1;
                if !env.pended.get() {
                    env.fault("spurious-pending", format!("Pending at step {steps} although no input pended in that call"));
                }
            }
            Poll::Ready(None) => break,
        }
        steps += 1;
        if steps > STEP_CAP {
            env.fault("no-termination", format!("no None after {STEP_CAP} polls"));
            break;
        }
    }
    PullObs { items, pendings }
}

/// Poll a future to completion; a `Pending` needs a pending source in that call.
pub fn drive_future<F: Future>(env: &Env, mut f: Pin<&mut F>) -> (Option<F::Output>, u32) {
    let mut tcx = TaskCx::from_waker(Waker::noop());
    let mut pendings = 0;
    for step in 0..STEP_CAP {
        env.pended.set(false);
        match f.as_mut().poll(&mut tcx) {
            Poll::Ready(o) => return (Some(o), pendings),
            Poll::Pending => {
                pendings += 1;
                if !env.pended.get() {
                    env.fault("spurious-pending", format!("future Pending at poll {step} although nothing below pended"));
                }
            }
        }
    }
    env.fault("no-termination", format!("future not ready after {STEP_CAP} polls"));
    (None, pendings)
}

/// Canonical push driver: per item `poll_ready` until `Done` then `start_send`; finally
/// `poll_finalize` until `Done`. Returns the number of Pending answers it saw.
pub fn drive_push<P, T>(
    env: &Env,
    mut p: Pin<&mut P>,
    items: impl IntoIterator<Item = T>,
    hint: Option<(usize, Option<usize>)>,
) -> u32
where
    P: Push<T, ()>,
{
    let mut tcx = TaskCx::from_waker(Waker::noop());
    let mut pendings = 0;
    let mut steps = 0;
    if let Some(h) = hint {
        p.as_mut().size_hint(h);
    }
    for it in items {
        loop {
            let ctx = <P::Ctx<'_> as dfir_pipes::Context<'_>>::from_task(&mut tcx);
            let r = p.as_mut().poll_ready(ctx);
            env.log(|| format!("  => driver poll_ready: {}", if r.is_done() { "Done" } else { "Pending" }));
            match r {
                PushStep::Done => break,
                PushStep::Pending(_) => pendings += 1,
            }
            steps += 1;
            if steps > STEP_CAP {
                env.fault("no-termination", format!("poll_ready still Pending after {STEP_CAP} driver steps"));
                return pendings;
            }
        }
        env.log(|| "  => driver start_send".to_string());
        p.as_mut().start_send(it, ());
    }
    loop {
        let ctx = <P::Ctx<'_> as dfir_pipes::Context<'_>>::from_task(&mut tcx);
        let r = p.as_mut().poll_finalize(ctx);
        env.log(|| format!("  => driver poll_finalize: {}", if r.is_done() { "Done" } else { "Pending" }));
        match r {
            PushStep::Done => break,
            PushStep::Pending(_) => pendings += 1,
        }
        steps += 1;
        if steps > STEP_CAP {
            env.fault("no-termination", format!("poll_finalize still Pending after {STEP_CAP} driver steps"));
            return pendings;
        }
    }
    pendings
}
