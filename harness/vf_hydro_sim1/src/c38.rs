//! C38 — simulator runs replay deterministically.
use std::collections::BTreeMap;

use vf_explore::{Report, Stats, Value, combi, hash_of, json};

use crate::driver::explore_tolerant;

use crate::corpus::{self, Entry};
use crate::simrun::{Obs, Run, Verdict};

pub const C38_PROGRAMS: [&str; 10] = [
    "ordered_batch",
    "unordered_batch_observed",
    "keyed_batch",
    "keyed_batch_unordered",
    "keyed_snapshot",
    "toplevel_fold",
    "two_input_tick",
    "two_slice_counter",
    "cluster_batch",
    "cluster_to_process",
];
const ALPHABET: [u8; 4] = [0, 85, 170, 255];

fn prog_n(name: &str) -> usize {
    match name {
        "two_slice_counter" => 2,
        "toplevel_fold" | "two_input_tick" => 3,
        _ => 4,
    }
}

fn strip_ansi(s: &str) -> String {
    let mut out = String::with_capacity(s.len());
    let mut it = s.chars().peekable();
    while let Some(c) = it.next() {
        if c == '\u{1b}' && it.peek() == Some(&'[') {
            for d in it.by_ref() {
                if d.is_ascii_alphabetic() {
                    break;
                }
            }
        } else {
            out.push(c);
        }
    }
    out
}

type BytesRun = (String, Verdict, Option<Obs>);

fn bytes_run(e: &Entry, bytes: &[u8]) -> BytesRun {
    let (log, v, o) = e.sim.run_bytes(bytes.to_vec());
    (strip_ansi(&log), v, o)
}

fn diff_runs(a: &Run, b: &Run) -> String {
    if a.decisions != b.decisions {
        let i = a.decisions.iter().zip(&b.decisions).position(|(x, y)| x != y).unwrap_or(a.decisions.len().min(b.decisions.len()));
        format!("decision logs differ at decision #{i}: first run {:?} vs second run {:?} (alternatives, chosen)", a.decisions.get(i), b.decisions.get(i))
    } else if a.verdict != b.verdict {
        format!("verdicts differ: {:?} vs {:?}", a.verdict, b.verdict)
    } else {
        format!("outputs differ: {:?} vs {:?}", a.obs, b.obs)
    }
}

fn diff_bytes(a: &BytesRun, b: &BytesRun) -> String {
    if a.0 != b.0 {
        let (la, lb): (Vec<&str>, Vec<&str>) = (a.0.lines().collect(), b.0.lines().collect());
        let i = la.iter().zip(&lb).position(|(x, y)| x != y).unwrap_or(la.len().min(lb.len()));
        format!("decision logs differ at line {i}: {:?} vs {:?}", la.get(i), lb.get(i))
    } else if a.1 != b.1 {
        format!("verdicts differ: {:?} vs {:?}", a.1, b.1)
    } else {
        format!("outputs differ: {:?} vs {:?}", a.2, b.2)
    }
}

/// All cases of one program: returns (case id -> digest of the first run) and checks, when
/// `twice`, that a second execution in this process is identical.
fn program_cases(name: &str, bound: usize, max_len: usize, twice: bool, st: &mut Stats) -> BTreeMap<String, u64> {
    let e = corpus::build(name, prog_n(name));
    let mut digests = BTreeMap::new();
    let mut max_points = 0;
    let (executions, capped) = explore_tolerant(bound, 200_000, |prefix| {
        // the explorer itself must survive a non-deterministic subject: here that is the verdict
        let (r1, div1) = e.sim.run_tolerant(prefix.to_vec(), true);
        let choices: Vec<usize> = r1.decisions.iter().map(|d| d.1).collect();
        max_points = max_points.max(choices.len());
        st.eval();
        st.nontrivial(&(name, &choices));
        st.outcome(&(name, &r1.obs, &r1.verdict));
        digests.insert(format!("dev:{choices:?}"), hash_of(&r1));
        if let Some(d) = div1 {
            st.violation(
                format!("C38/{name}/deviation-replay"),
                format!("program {name} ({}): replaying the recorded decision prefix {prefix:?} met a different decision tree: {d}", e.inputs),
                json!({"program": name, "choices": prefix}),
            );
        }
        if twice {
            let (r2, div2) = e.sim.run_tolerant(choices.clone(), true);
            if r1 != r2 || div2.is_some() {
                // once more, so that a difference is itself reproducible evidence
                let (r3, _) = e.sim.run_tolerant(choices.clone(), true);
                st.violation(
                    format!("C38/{name}/deviation-replay"),
                    format!("program {name} ({}), decision vector {choices:?}: {} (third run equals first: {})", e.inputs, div2.unwrap_or_else(|| diff_runs(&r1, &r2)), r3 == r1),
                    json!({"program": name, "choices": choices}),
                );
            }
        }
        st.sample(|| json!({"program": name, "inputs": e.inputs, "decision_vector": choices, "decisions": r1.decisions.len(), "verdict": format!("{:?}", r1.verdict), "outputs": format!("{:?}", r1.obs)}));
        r1.decisions
    });
    if capped {
        st.cap(format!("program {name}: deviation explorer stopped after {executions} executions"));
    }
    let mut nbytes = 0;
    for bytes in combi::sequences_upto(&ALPHABET, max_len) {
        let r1 = bytes_run(&e, &bytes);
        st.eval();
        nbytes += 1;
        st.nontrivial(&(name, &bytes));
        st.outcome(&(name, &r1.2, &r1.1));
        digests.insert(format!("bytes:{bytes:?}"), hash_of(&r1));
        if twice {
            let r2 = bytes_run(&e, &bytes);
            if r1 != r2 {
                st.violation(
                    format!("C38/{name}/bytes-replay"),
                    format!("program {name} ({}), fuzz_repro({bytes:?}) twice: {}", e.inputs, diff_bytes(&r1, &r2)),
                    json!({"program": name, "bytes": bytes}),
                );
            }
        }
    }
    if twice {
        println!("  program {name}: {executions} decision vectors (bound {bound}, max {max_points} decisions), {nbytes} byte strings, each run twice");
    }
    digests
}

fn parse_list(s: &str) -> Vec<u64> {
    s.trim_matches(|c| c == '[' || c == ']').split(',').filter_map(|x| x.trim().parse().ok()).collect()
}

fn digest_of_case(e: &Entry, case: &str) -> u64 {
    if let Some(v) = case.strip_prefix("dev:") {
        hash_of(&e.sim.run_tolerant(parse_list(v).into_iter().map(|x| x as usize).collect(), true).0)
    } else if let Some(v) = case.strip_prefix("bytes:") {
        hash_of(&bytes_run(e, &parse_list(v).into_iter().map(|x| x as u8).collect::<Vec<_>>()))
    } else {
        crate::driver::machinery("unknown case id")
    }
}

/// Second-process mode for replaying one case: prints its digest.
pub fn child_one(name: &str, case: &str) -> ! {
    let e = corpus::build(name, prog_n(name));
    println!("ONE\t{}", digest_of_case(&e, case));
    crate::jobs::finish_job(&Stats::new());
}

fn tier_bounds(thorough: bool) -> (usize, usize) {
    if thorough { (3, 4) } else { (2, 3) }
}

/// Child-process job: all cases of one program; with `twice` every case is run twice in this
/// process and compared. Prints one digest line per case for the cross-process comparison.
pub fn program_job(name: &str, job: &Value) -> Stats {
    let mut st = Stats::new();
    let d = program_cases(name, job["bound"].as_u64().unwrap() as usize, job["max_len"].as_u64().unwrap() as usize, job["twice"].as_bool().unwrap(), &mut st);
    let mut text = String::new();
    for (k, v) in d {
        text.push_str(&format!("D\t{name}\t{k}\t{v}\n"));
    }
    print!("{text}");
    st
}

fn digests_of(lines: &[String]) -> BTreeMap<(String, String), u64> {
    let mut m = BTreeMap::new();
    for l in lines {
        let f: Vec<&str> = l.split('\t').collect();
        if f.len() == 4 && f[0] == "D" {
            m.insert((f[1].to_string(), f[2].to_string()), f[3].parse::<u64>().unwrap());
        } else if l.starts_with("  ") {
            println!("{l}");
        }
    }
    m
}

pub fn run(rep: &mut Report) {
    let thorough = rep.thorough();
    let (bound, max_len) = tier_bounds(thorough);
    rep.rule = "one case = (program, decision input): every decision vector within the deviation bound (choice 0 = default) through verif_run_with_driver, \
                and every byte string over {0,85,170,255} up to the length bound through fuzz_repro. Distinct outcomes = distinct (outputs, verdict)."
        .into();
    rep.explanation = "each case is executed twice in one process and once more in a second process; the decision log ((alternatives, chosen) per decision for driver runs, \
                       the run_with_scheduler_and_logger text for byte runs), the outputs and the verdict must be identical."
        .into();
    rep.assume("ANSI colour codes are stripped from the text log before comparison (colouring depends on the terminal, not on the simulation)");
    rep.assume("trusted base: bolero's bytes driver and the harness's recording driver are themselves deterministic");
    rep.bound("deviation_bound", bound);
    rep.bound("max_bytes", max_len);
    rep.bound("programs", C38_PROGRAMS.len());
    let specs = |twice: bool| -> Vec<Value> { C38_PROGRAMS.iter().map(|n| json!({"program": n, "bound": bound, "max_len": max_len, "twice": twice})).collect() };
    let t = std::time::Instant::now();
    let (first, lines1) = crate::jobs::run_programs("c38prog", &specs(true), "C38");
    println!("  first process: {} executions, {:.1}s", first.evaluations, t.elapsed().as_secs_f64());
    let t = std::time::Instant::now();
    let (second, lines2) = crate::jobs::run_programs("c38prog", &specs(false), "C38");
    println!("  second process: {} executions, {:.1}s", second.evaluations, t.elapsed().as_secs_f64());
    let mine = digests_of(&lines1);
    let theirs = digests_of(&lines2);
    let mut st = Stats::new();
    for v in second.violations {
        st.violation(v.key, v.what, v.replay); // crashes of the second process
    }
    for name in C38_PROGRAMS {
        let a: Vec<&String> = mine.keys().filter(|k| k.0 == name).map(|k| &k.1).collect();
        let b: Vec<&String> = theirs.keys().filter(|k| k.0 == name).map(|k| &k.1).collect();
        if a != b && !a.is_empty() && !b.is_empty() {
            // a different SET of cases means the decision trees differ between processes
            let missing = a.iter().find(|k| !b.contains(k));
            let extra = b.iter().find(|k| !a.contains(k));
            st.violation(
                format!("C38/{name}/cross-process"),
                format!("program {name}: a second process enumerated {} cases, the first {}: only in the first {missing:?}, only in the second {extra:?} (branching factors differ between processes)", b.len(), a.len()),
                json!({"program": name, "case": missing.or(extra)}),
            );
        }
    }
    for (k, v) in &mine {
        st.eval();
        st.nontrivial(k);
        st.outcome(v);
        if let Some(w) = theirs.get(k)
            && w != v
        {
            st.violation(
                format!("C38/{}/cross-process", k.0),
                format!("program {}: case {} gives a different (decision log, outputs, verdict) in a second process", k.0, k.1),
                json!({"program": k.0, "case": k.1}),
            );
        }
    }
    rep.section("same_process", first);
    rep.section("second_process", st);
}

pub fn replay(case: &Value) -> bool {
    if case["section"].as_str() == Some("crash") {
        return crate::jobs::replay_crash(case);
    }
    let name = case["program"].as_str().expect("replay case without program");
    let e = corpus::build(name, prog_n(name));
    let mut bad = false;
    if let Some(ch) = case["choices"].as_array() {
        let choices: Vec<usize> = ch.iter().map(|c| c.as_u64().unwrap() as usize).collect();
        let (r1, d1) = e.sim.run_tolerant(choices.clone(), true);
        let (r2, d2) = e.sim.run_tolerant(choices.clone(), true);
        if let Some(d) = d1.or(d2) {
            println!("replay: VIOLATION the recorded decision vector no longer fits the decision tree: {d}");
            bad = true;
        }
        println!("replay: program {name} ({}), decision vector {choices:?}\n  run 1: {r1:?}\n  run 2: {r2:?}", e.inputs);
        if r1 != r2 {
            println!("replay: VIOLATION {}", diff_runs(&r1, &r2));
            bad = true;
        }
    } else if let Some(b) = case["bytes"].as_array() {
        let bytes: Vec<u8> = b.iter().map(|c| c.as_u64().unwrap() as u8).collect();
        let r1 = bytes_run(&e, &bytes);
        let r2 = bytes_run(&e, &bytes);
        println!("replay: program {name} ({}), fuzz_repro({bytes:?})\n  run 1: {:?} {:?}\n  run 2: {:?} {:?}", e.inputs, r1.1, r1.2, r2.1, r2.2);
        if r1 != r2 {
            println!("replay: VIOLATION {}", diff_bytes(&r1, &r2));
            bad = true;
        }
    } else if let Some(c) = case["case"].as_str() {
        let here = digest_of_case(&e, c);
        let there = crate::jobs::spawn_job(&json!({"job": "c38one", "program": name, "case": c}))
            .ok()
            .and_then(|r| r.lines.iter().find_map(|l| l.strip_prefix("ONE\t").map(|d| d.trim().to_string())));
        println!("replay: program {name}, case {c}: digest here {here}, digest in a second process {there:?}");
        if there != Some(here.to_string()) {
            println!("replay: VIOLATION the same decision input gives different results in two processes");
            bad = true;
        }
    }
    if !bad {
        println!("replay: both runs identical");
    }
    bad
}
