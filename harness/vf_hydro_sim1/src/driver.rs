//! The harness-implemented bolero driver: every `gen_*` call becomes one choice point of the
//! `vf_explore::Chooser` over exactly the range the caller asked for, and is recorded as
//! (range size, choice). Ranges that cannot be enumerated are a machinery error (exit 2).
use std::ops::Bound;

use bolero::generator::bolero_generator as bg;
use bg::driver::object::DynDriver;
use vf_explore::Chooser;

/// Largest branching factor the harness accepts at a single decision.
pub const MAX_RANGE: u128 = 4096;
pub const MAX_DECISIONS_PER_EXECUTION: usize = 20_000;

pub fn machinery(msg: &str) -> ! {
    println!("MACHINERY-ERROR: {msg}");
    eprintln!("MACHINERY-ERROR: {msg}");
    std::process::exit(2);
}

/// A chooser for subjects that may be NON-deterministic (C38 only): a replayed choice that is out
/// of range is clamped and remembered as a divergence instead of ending the process.
#[derive(Default)]
pub struct TolChooser {
    pub prefix: Vec<usize>,
    pub trace: Vec<(usize, usize)>,
    pub diverged: Option<String>,
}

impl TolChooser {
    fn choose(&mut self, n: usize) -> usize {
        let pos = self.trace.len();
        let c = match self.prefix.get(pos) {
            Some(&c) if c >= n => {
                self.diverged.get_or_insert(format!("decision #{pos} now has {n} alternatives, but alternative {c} was recorded for it"));
                n - 1
            }
            Some(&c) => c,
            None => 0,
        };
        self.trace.push((n, c));
        c
    }
}

/// Deviation-bounded DFS like `vf_explore::explore` (all points costly), for possibly
/// non-deterministic subjects: `run(prefix)` returns the (alternatives, chosen) trace.
pub fn explore_tolerant(bound: usize, cap: u64, mut run: impl FnMut(&[usize]) -> Vec<(usize, usize)>) -> (u64, bool) {
    let mut stack: Vec<Vec<usize>> = vec![vec![]];
    let mut executions = 0;
    while let Some(prefix) = stack.pop() {
        if executions >= cap {
            return (executions, true);
        }
        let trace = run(&prefix);
        executions += 1;
        let plen = prefix.len().min(trace.len());
        let mut cost = trace[..plen].iter().filter(|p| p.1 != 0).count();
        let mut next = vec![];
        for i in plen..trace.len() {
            let (n, c) = trace[i];
            if cost + 1 <= bound {
                for alt in 1..n {
                    let mut np: Vec<usize> = trace[..i].iter().map(|q| q.1).collect();
                    np.push(alt);
                    next.push(np);
                }
            }
            if c != 0 {
                cost += 1;
            }
        }
        next.reverse();
        stack.extend(next);
    }
    (executions, false)
}

pub struct RecDriver {
    pub ch: Chooser,
    /// when set, choices come from here instead of `ch`
    pub tol: Option<TolChooser>,
    decisions: usize,
    depth: usize,
    /// true: every decision is a costly deviation point (deviation-bounded exploration);
    /// false: decisions are free (plain exhaustive DFS, same tree).
    pub costly: bool,
}

impl RecDriver {
    pub fn new(ch: Chooser) -> Self {
        RecDriver { ch, tol: None, decisions: 0, depth: 0, costly: true }
    }
    pub fn replay(prefix: Vec<usize>) -> Self {
        Self::new(Chooser::replay(prefix))
    }
    pub fn tolerant(prefix: Vec<usize>) -> Self {
        let mut d = Self::new(Chooser::replay(vec![]));
        d.tol = Some(TolChooser { prefix, ..Default::default() });
        d
    }
    /// The decision log: (number of alternatives, alternative taken) per decision.
    pub fn log(&self) -> Vec<(usize, usize)> {
        match &self.tol {
            Some(t) => t.trace.clone(),
            None => self.ch.trace.iter().map(|p| (p.n, p.choice)).collect(),
        }
    }
    fn pick(&mut self, lo: i128, hi: i128) -> Option<i128> {
        if hi < lo {
            return None;
        }
        // No corpus execution needs more than a few dozen decisions. Far beyond that the simulator
        // is scheduling ticks without end (only possible if ticks stop consuming input). The
        // calling frames belong to the simulator dylib, so unwinding is not an option: say why
        // and end the (child) process.
        self.decisions += 1;
        if self.decisions > MAX_DECISIONS_PER_EXECUTION {
            eprintln!("VF-LIVELOCK: more than {MAX_DECISIONS_PER_EXECUTION} simulator decisions in one execution; last decisions (alternatives, chosen): {:?}", self.log().iter().rev().take(6).collect::<Vec<_>>());
            std::process::abort();
        }
        let n = (hi - lo) as u128 + 1;
        if n > MAX_RANGE {
            machinery(&format!("simulator decision over a range of {n} values cannot be enumerated"));
        }
        let c = if let Some(t) = &mut self.tol {
            t.choose(n as usize)
        } else if self.costly {
            self.ch.choose(n as usize)
        } else {
            self.ch.choose_free(n as usize)
        };
        Some(lo + c as i128)
    }
}

macro_rules! int_method {
    ($name:ident, $ty:ty) => {
        fn $name(&mut self, min: Bound<&$ty>, max: Bound<&$ty>) -> Option<$ty> {
            let lo: i128 = match min {
                Bound::Included(v) => *v as i128,
                Bound::Excluded(v) => *v as i128 + 1,
                Bound::Unbounded => <$ty>::MIN as i128,
            };
            let hi: i128 = match max {
                Bound::Included(v) => *v as i128,
                Bound::Excluded(v) => *v as i128 - 1,
                Bound::Unbounded => <$ty>::MAX as i128,
            };
            self.pick(lo, hi).map(|v| v as $ty)
        }
    };
}

impl DynDriver for RecDriver {
    fn depth(&self) -> usize {
        self.depth
    }
    fn set_depth(&mut self, depth: usize) {
        self.depth = depth;
    }
    fn max_depth(&self) -> usize {
        5
    }
    fn gen_variant(&mut self, variants: usize, _base_case: usize) -> Option<usize> {
        self.pick(0, variants as i128 - 1).map(|v| v as usize)
    }
    int_method!(gen_u8, u8);
    int_method!(gen_i8, i8);
    int_method!(gen_u16, u16);
    int_method!(gen_i16, i16);
    int_method!(gen_u32, u32);
    int_method!(gen_i32, i32);
    int_method!(gen_u64, u64);
    int_method!(gen_i64, i64);
    int_method!(gen_usize, usize);
    int_method!(gen_isize, isize);
    fn gen_u128(&mut self, _min: Bound<&u128>, _max: Bound<&u128>) -> Option<u128> {
        machinery("gen_u128 requested from the recording driver")
    }
    fn gen_i128(&mut self, _min: Bound<&i128>, _max: Bound<&i128>) -> Option<i128> {
        machinery("gen_i128 requested from the recording driver")
    }
    fn gen_f32(&mut self, _min: Bound<&f32>, _max: Bound<&f32>) -> Option<f32> {
        machinery("gen_f32 requested from the recording driver")
    }
    fn gen_f64(&mut self, _min: Bound<&f64>, _max: Bound<&f64>) -> Option<f64> {
        machinery("gen_f64 requested from the recording driver")
    }
    fn gen_char(&mut self, _min: Bound<&char>, _max: Bound<&char>) -> Option<char> {
        machinery("gen_char requested from the recording driver")
    }
    fn gen_bool(&mut self, _probability: Option<f32>) -> Option<bool> {
        self.pick(0, 1).map(|v| v == 1)
    }
    fn gen_from_bytes(
        &mut self,
        _hint: &mut dyn FnMut() -> (usize, Option<usize>),
        _produce: &mut dyn FnMut(&[u8]) -> Option<usize>,
    ) -> Option<()> {
        machinery("gen_from_bytes requested from the recording driver")
    }
}

/// Run `f` with a recording driver that continues the explorer's `Chooser`; the chooser (with the
/// decisions appended to its trace) is handed back afterwards. A panic inside `f` is returned as
/// `Err(message)` (the decisions made up to the panic stay recorded).
pub fn with_rec<R>(
    ch: &mut Chooser,
    costly: bool,
    f: impl FnOnce(&mut bg::driver::object::Borrowed<'_>) -> R,
) -> Result<R, String> {
    let inner = std::mem::replace(ch, Chooser::replay(vec![]));
    let mut d = RecDriver::new(inner);
    d.costly = costly;
    let r = {
        let mut b = bg::driver::object::Borrowed(&mut d);
        vf_explore::catch(|| f(&mut b))
    };
    *ch = d.ch;
    r
}
