//! The harness-implemented bolero driver: every `gen_*` call becomes one choice point of the
//! `vf_explore::Chooser` over exactly the range the caller asked for, and is recorded as
//! (range size, choice). Ranges that cannot be enumerated are a machinery error (exit 2).
use std::ops::Bound;

use bolero::generator::bolero_generator as bg;
use bg::driver::object::DynDriver;
use vf_explore::Chooser;

/// Largest branching factor the harness accepts at a single decision.
pub const MAX_RANGE: u128 = 4096;

pub fn machinery(msg: &str) -> ! {
    println!("MACHINERY-ERROR: {msg}");
    eprintln!("MACHINERY-ERROR: {msg}");
    std::process::exit(2);
}

pub struct RecDriver {
    pub ch: Chooser,
    depth: usize,
    /// true: every decision is a costly deviation point (deviation-bounded exploration);
    /// false: decisions are free (plain exhaustive DFS, same tree).
    pub costly: bool,
}

impl RecDriver {
    pub fn new(ch: Chooser) -> Self {
        RecDriver { ch, depth: 0, costly: true }
    }
    pub fn replay(prefix: Vec<usize>) -> Self {
        Self::new(Chooser::replay(prefix))
    }
    /// The decision log: (number of alternatives, alternative taken) per decision.
    pub fn log(&self) -> Vec<(usize, usize)> {
        self.ch.trace.iter().map(|p| (p.n, p.choice)).collect()
    }
    fn pick(&mut self, lo: i128, hi: i128) -> Option<i128> {
        if hi < lo {
            return None;
        }
        let n = (hi - lo) as u128 + 1;
        if n > MAX_RANGE {
            machinery(&format!("simulator decision over a range of {n} values cannot be enumerated"));
        }
        let c = if self.costly { self.ch.choose(n as usize) } else { self.ch.choose_free(n as usize) };
        Some(lo + c as i128)
    }
}

macro_rules! int_method {
    ($name:ident, $ty:ty) => {
        fn $name(&mut self, min: Bound<&$ty>, max: Bound<&$ty>) -> Option<$ty> {
            let lo: i128 = match min {
                Bound::Included(v) => *v as i128,
                Bound::Excluded(v) => *v as i128 + 1,
                Bound::Unbounded => <$ty>::MIN as i128,
            };
            let hi: i128 = match max {
                Bound::Included(v) => *v as i128,
                Bound::Excluded(v) => *v as i128 - 1,
                Bound::Unbounded => <$ty>::MAX as i128,
            };
            self.pick(lo, hi).map(|v| v as $ty)
        }
    };
}

impl DynDriver for RecDriver {
    fn depth(&self) -> usize {
        self.depth
    }
    fn set_depth(&mut self, depth: usize) {
        self.depth = depth;
    }
    fn max_depth(&self) -> usize {
        5
    }
    fn gen_variant(&mut self, variants: usize, _base_case: usize) -> Option<usize> {
        self.pick(0, variants as i128 - 1).map(|v| v as usize)
    }
    int_method!(gen_u8, u8);
    int_method!(gen_i8, i8);
    int_method!(gen_u16, u16);
    int_method!(gen_i16, i16);
    int_method!(gen_u32, u32);
    int_method!(gen_i32, i32);
    int_method!(gen_u64, u64);
    int_method!(gen_i64, i64);
    int_method!(gen_usize, usize);
    int_method!(gen_isize, isize);
    fn gen_u128(&mut self, _min: Bound<&u128>, _max: Bound<&u128>) -> Option<u128> {
        machinery("gen_u128 requested from the recording driver")
    }
    fn gen_i128(&mut self, _min: Bound<&i128>, _max: Bound<&i128>) -> Option<i128> {
        machinery("gen_i128 requested from the recording driver")
    }
    fn gen_f32(&mut self, _min: Bound<&f32>, _max: Bound<&f32>) -> Option<f32> {
        machinery("gen_f32 requested from the recording driver")
    }
    fn gen_f64(&mut self, _min: Bound<&f64>, _max: Bound<&f64>) -> Option<f64> {
        machinery("gen_f64 requested from the recording driver")
    }
    fn gen_char(&mut self, _min: Bound<&char>, _max: Bound<&char>) -> Option<char> {
        machinery("gen_char requested from the recording driver")
    }
    fn gen_bool(&mut self, _probability: Option<f32>) -> Option<bool> {
        self.pick(0, 1).map(|v| v == 1)
    }
    fn gen_from_bytes(
        &mut self,
        _hint: &mut dyn FnMut() -> (usize, Option<usize>),
        _produce: &mut dyn FnMut(&[u8]) -> Option<usize>,
    ) -> Option<()> {
        machinery("gen_from_bytes requested from the recording driver")
    }
}

/// Run `f` with a recording driver that continues the explorer's `Chooser`; the chooser (with the
/// decisions appended to its trace) is handed back afterwards. A panic inside `f` is returned as
/// `Err(message)` (the decisions made up to the panic stay recorded).
pub fn with_rec<R>(
    ch: &mut Chooser,
    costly: bool,
    f: impl FnOnce(&mut bg::driver::object::Borrowed<'_>) -> R,
) -> Result<R, String> {
    let inner = std::mem::replace(ch, Chooser::replay(vec![]));
    let mut d = RecDriver::new(inner);
    d.costly = costly;
    let r = {
        let mut b = bg::driver::object::Borrowed(&mut d);
        vf_explore::catch(|| f(&mut b))
    };
    *ch = d.ch;
    r
}
