//! Program-level work runs in child processes, one per program: the simulator executes generated
//! code from a dylib that carries its own copy of std, so a panic raised there cannot be caught by
//! the checker ("Rust cannot catch foreign exceptions") and takes the whole process down. A child
//! that dies is an observation (the simulator crashed on that program), not a checker failure.
use vf_explore::{Stats, Value, Violation, json, serde_json};

pub fn stats_to_json(s: &Stats) -> Value {
    json!({
        "evaluations": s.evaluations, "states": s.states, "transitions": s.transitions, "traces": s.traces,
        "distinct": s.distinct.iter().collect::<Vec<_>>(), "outcomes": s.outcomes.iter().collect::<Vec<_>>(),
        "samples": s.samples, "violations_total": s.violations_total, "caps": s.caps,
        "violations": s.violations.iter().map(|v| json!({"key": v.key, "what": v.what, "replay": v.replay})).collect::<Vec<_>>(),
    })
}

pub fn stats_from_json(v: &Value) -> Stats {
    let mut s = Stats::new();
    s.evaluations = v["evaluations"].as_u64().unwrap();
    s.states = v["states"].as_u64().unwrap();
    s.transitions = v["transitions"].as_u64().unwrap();
    s.traces = v["traces"].as_u64().unwrap();
    s.distinct = v["distinct"].as_array().unwrap().iter().map(|x| x.as_u64().unwrap()).collect();
    s.outcomes = v["outcomes"].as_array().unwrap().iter().map(|x| x.as_u64().unwrap()).collect();
    s.samples = v["samples"].as_array().unwrap().clone();
    s.violations_total = v["violations_total"].as_u64().unwrap();
    s.caps = v["caps"].as_array().unwrap().iter().map(|x| x.as_str().unwrap().to_string()).collect();
    s.violations = v["violations"]
        .as_array()
        .unwrap()
        .iter()
        .map(|x| Violation { key: x["key"].as_str().unwrap().into(), what: x["what"].as_str().unwrap().into(), replay: x["replay"].clone() })
        .collect();
    s
}

/// Development aid (mutation experiments on hook code): skip the program-level sections, which
/// need the simulator dylib rebuilt. The run is then reported as capped, never as exhaustive.
pub fn skip_programs() -> bool {
    std::env::var("VF_SIM1_SKIP_PROGRAMS").is_ok_and(|v| v == "1")
}

pub struct JobResult {
    pub stats: Stats,
    /// stdout lines of the child other than its STATS line
    pub lines: Vec<String>,
}

pub enum JobFailure {
    /// the child died (signal / uncaught foreign panic): the simulator crashed
    Crash(String),
    /// the recording driver saw more decisions in ONE execution than any corpus program can need:
    /// the simulator keeps scheduling ticks (it aborts itself with a marker)
    Livelock(String),
    /// wall-clock limit of the child exceeded: reported as a cap, never as a verdict
    Timeout(u64),
}

fn child_timeout_s() -> u64 {
    std::env::var("VF_SIM1_CHILD_TIMEOUT_S").ok().and_then(|v| v.parse().ok()).unwrap_or(2400)
}

/// Run `job` in a child process. `Err` = the child did not deliver its result.
pub fn spawn_job(job: &Value) -> Result<JobResult, JobFailure> {
    static SEQ: std::sync::atomic::AtomicUsize = std::sync::atomic::AtomicUsize::new(0);
    let exe = std::env::current_exe().expect("current_exe");
    let dir = std::path::Path::new(env!("CARGO_MANIFEST_DIR")).join("target").join("vf_jobs");
    let _ = std::fs::create_dir_all(&dir);
    let tag = format!("{}_{}", std::process::id(), SEQ.fetch_add(1, std::sync::atomic::Ordering::SeqCst));
    let (po, pe) = (dir.join(format!("{tag}.out")), dir.join(format!("{tag}.err")));
    let mut child = std::process::Command::new(exe)
        .env("VF_SIM1_JOB", job.to_string())
        .stdin(std::process::Stdio::null())
        .stdout(std::fs::File::create(&po).expect("job stdout file"))
        .stderr(std::fs::File::create(&pe).expect("job stderr file"))
        .spawn()
        .unwrap_or_else(|e| crate::driver::machinery(&format!("cannot spawn a child process: {e}")));
    let start = std::time::Instant::now();
    let limit = child_timeout_s();
    let status = loop {
        match child.try_wait() {
            Ok(Some(st)) => break Some(st),
            Ok(None) => {
                if start.elapsed().as_secs() > limit {
                    let _ = child.kill();
                    let _ = child.wait();
                    break None;
                }
                std::thread::sleep(std::time::Duration::from_millis(50));
            }
            Err(e) => crate::driver::machinery(&format!("waiting for a child process failed: {e}")),
        }
    };
    let stdout = std::fs::read_to_string(&po).unwrap_or_default();
    let err = String::from_utf8_lossy(&std::fs::read(&pe).unwrap_or_default()).into_owned();
    let _ = std::fs::remove_file(&po);
    let _ = std::fs::remove_file(&pe);
    let Some(status) = status else {
        return Err(JobFailure::Timeout(limit));
    };
    let mut stats = None;
    let mut lines = vec![];
    for l in stdout.lines() {
        if let Some(j) = l.strip_prefix("STATS ") {
            stats = serde_json::from_str::<Value>(j).ok().map(|v| stats_from_json(&v));
        } else {
            lines.push(l.to_string());
        }
    }
    if status.code() == Some(2) {
        // the child itself reported a machinery error
        print!("{stdout}");
        std::process::exit(2);
    }
    match stats {
        Some(stats) if status.success() => Ok(JobResult { stats, lines }),
        _ => {
            if let Some(l) = err.lines().find(|l| l.contains("VF-LIVELOCK")) {
                return Err(JobFailure::Livelock(l.to_string()));
            }
            let interesting: Vec<&str> = err
                .lines()
                .filter(|l| l.contains("panicked at") || l.contains("fatal runtime error") || l.starts_with("Simulator internal error"))
                .take(4)
                .collect();
            let msg = err.lines().skip_while(|l| !l.contains("panicked at")).nth(1).unwrap_or("").trim().to_string();
            Err(JobFailure::Crash(format!("child process ended with {status} ; {msg} ; {}", interesting.join(" | "))))
        }
    }
}

pub fn finish_job(stats: &Stats) -> ! {
    println!("STATS {}", stats_to_json(stats));
    std::process::exit(0);
}

fn run_one(kind: &str, spec: &Value) -> Stats {
    let name = spec["program"].as_str().unwrap_or("");
    let n = spec["n"].as_u64().unwrap_or(0) as usize;
    match kind {
        "c36prog" => crate::c36::program_job(name, n),
        "c37prog" => crate::c37::program_case(name, n, spec["with_expected"].as_bool().unwrap()),
        "c38prog" => crate::c38::program_job(name, spec),
        other => crate::driver::machinery(&format!("unknown job {other}")),
    }
}

pub fn job_main(spec: &str) -> ! {
    let job: Value = serde_json::from_str(spec).unwrap_or_else(|e| crate::driver::machinery(&format!("bad VF_SIM1_JOB: {e}")));
    let kind = job["job"].as_str().unwrap_or("").to_string();
    if kind == "c38one" {
        crate::c38::child_one(job["program"].as_str().unwrap(), job["case"].as_str().unwrap());
    }
    let specs = job["specs"].as_array().cloned().unwrap_or_default();
    // programs of one job share this process: concurrent simulator builds are coordinated inside
    // one process (as under `cargo test`), not across processes
    let st = vf_explore::par_map(specs.len(), vf_explore::ncpu().min(6), |i| run_one(&kind, &specs[i]));
    finish_job(&st);
}

/// Run the per-program `specs` of job `kind`: all programs without `"solo": true` in ONE child
/// process (threads), solo programs each in their own child, one child at a time. If the group
/// child dies, every program is re-run alone so that the crash is attributed to its program.
/// A dead child becomes a violation `<prefix>/<program>/simulator-crash`.
pub fn run_programs(kind: &str, specs: &[Value], prefix: &str) -> (Stats, Vec<String>) {
    let failure_stats = |spec: &Value, f: JobFailure| {
        let name = spec["program"].as_str().unwrap_or("?");
        let mut st = Stats::new();
        st.eval();
        match f {
            JobFailure::Crash(crash) => st.violation(
                format!("{prefix}/{name}/simulator-crash"),
                format!("program {name}: the process simulating it died: {crash}"),
                json!({"section": "crash", "job": kind, "spec": spec}),
            ),
            JobFailure::Livelock(l) => st.violation(
                format!("{prefix}/{name}/simulator-livelock"),
                format!("program {name}: one simulated execution never ends, the simulator keeps scheduling ticks: {l}"),
                json!({"section": "crash", "job": kind, "spec": spec}),
            ),
            JobFailure::Timeout(s) => st.cap(format!("program {name}: child process killed after {s}s wall clock")),
        }
        st
    };
    let group: Vec<Value> = specs.iter().filter(|s| s["solo"].as_bool() != Some(true)).cloned().collect();
    let mut solo: Vec<Value> = specs.iter().filter(|s| s["solo"].as_bool() == Some(true)).cloned().collect();
    let mut total = Stats::new();
    let mut lines = vec![];
    if !group.is_empty() {
        match spawn_job(&json!({"job": kind, "specs": group})) {
            Ok(r) => {
                total.merge(r.stats);
                lines.extend(r.lines);
            }
            Err(f) => {
                let why = match &f {
                    JobFailure::Crash(c) => c.clone(),
                    JobFailure::Livelock(l) => l.clone(),
                    JobFailure::Timeout(s) => format!("killed after {s}s"),
                };
                println!("  note: the child running {} programs together did not finish ({why}); re-running each program alone", group.len());
                solo.splice(0..0, group);
            }
        }
    }
    for spec in &solo {
        match spawn_job(&json!({"job": kind, "specs": [spec]})) {
            Ok(r) => {
                total.merge(r.stats);
                lines.extend(r.lines);
            }
            Err(f) => total.merge(failure_stats(spec, f)),
        }
    }
    (total, lines)
}

/// `--replay` of a crash case: the program alone in a child process.
pub fn replay_crash(case: &Value) -> bool {
    let kind = case["job"].as_str().unwrap();
    match spawn_job(&json!({"job": kind, "specs": [case["spec"]]})) {
        Ok(r) => {
            println!("replay: the child process survived ({} executions, {} violations)", r.stats.evaluations, r.stats.violations_total);
            for v in &r.stats.violations {
                println!("replay: VIOLATION [{}] {}", v.key, v.what);
            }
            !r.stats.violations.is_empty()
        }
        Err(JobFailure::Crash(c)) | Err(JobFailure::Livelock(c)) => {
            println!("replay: VIOLATION the simulating process died / never finished: {c}");
            true
        }
        Err(JobFailure::Timeout(s)) => {
            println!("replay: the child was killed after {s}s without a result");
            false
        }
    }
}
