mod driver;
mod hooks;
use hydro_lang::prelude::*;
fn main() {
    if std::env::var_os("CARGO_MANIFEST_DIR").is_none() {
        unsafe { std::env::set_var("CARGO_MANIFEST_DIR", env!("CARGO_MANIFEST_DIR")) };
    }
    let _ = hooks::ALL_KINDS;
    let t0 = std::time::Instant::now();
    let mut flow = FlowBuilder::new();
    let node = flow.process::<()>();
    let (tx, rx) = vf_hydro_sim1::progs::ordered_batch(&node);
    let mut outs = std::collections::BTreeSet::new();
    let n = flow.sim().exhaustive(async || {
        tx.send(1); tx.send(2); tx.send(3);
        let all: Vec<Vec<u32>> = rx.collect().await;
        outs.insert(all);
    });
    println!("{n} instances, outs={outs:?}, {:?}", t0.elapsed());
}
