//! vf_hydro_sim1 — engine F (part 1): C36, C37, C38 over the repo's simulator.
#![allow(dead_code)]
mod c36;
mod c37;
mod c38;
mod corpus;
mod driver;
mod hooks;
mod jobs;
mod simrun;

use vf_explore::{Report, cli, quiet_panics};

fn main() {
    // hydro_lang's staging / trybuild code needs the manifest dir of the crate holding the
    // programs; the check driver starts the binary directly (no `cargo run`).
    unsafe {
        if std::env::var_os("CARGO_MANIFEST_DIR").is_none() {
            std::env::set_var("CARGO_MANIFEST_DIR", env!("CARGO_MANIFEST_DIR"));
        }
        std::env::set_var("NO_COLOR", "1");
        std::env::remove_var("RUSTFLAGS"); // would switch the simulator's build strategy
        std::env::remove_var("BOLERO_FUZZER");
        std::env::remove_var("HYDRO_SIM_LOG");
    }
    let _ = std::env::set_current_dir(env!("CARGO_MANIFEST_DIR"));
    quiet_panics();
    if let Ok(spec) = std::env::var("VF_SIM1_JOB") {
        jobs::job_main(&spec);
    }
    if let Ok(spec) = std::env::var("VF_SIM1_PROBE") {
        // development aid: print every execution of one corpus program (own DFS)
        let (name, n) = spec.split_once(':').expect("VF_SIM1_PROBE=program:n");
        let e = corpus::build(name, n.parse().unwrap());
        let st = vf_explore::explore(None, 100_000, |ch| {
            let run = e.sim.run_driver(ch, false, true);
            println!("{:?} {:?} decisions={:?}\n    obs={:?}", ch.choices(), run.verdict, run.decisions, run.obs);
        });
        println!("{} executions (capped: {})", st.executions, st.capped);
        std::process::exit(0);
    }
    let cli = cli();
    if let Some(path) = &cli.replay {
        let txt = std::fs::read_to_string(path).unwrap_or_else(|e| driver::machinery(&format!("cannot read replay file {path}: {e}")));
        let v: vf_explore::Value = vf_explore::serde_json::from_str(&txt).unwrap_or_else(|e| driver::machinery(&format!("bad replay file: {e}")));
        let case = &v["case"];
        let violates = match cli.property.as_str() {
            "C36" => c36::replay(case),
            "C37" => c37::replay(case),
            "C38" => c38::replay(case),
            p => driver::machinery(&format!("property {p} is not served by vf_hydro_sim1")),
        };
        std::process::exit(if violates { 1 } else { 0 });
    }
    let mut rep = Report::new(&cli.property, &cli.tier, "vf_hydro_sim1");
    match cli.property.as_str() {
        "C36" => c36::run(&mut rep),
        "C37" => c37::run(&mut rep),
        "C38" => c38::run(&mut rep),
        p => driver::machinery(&format!("property {p} is not served by vf_hydro_sim1")),
    }
    rep.finish();
}
