use hydro_lang::prelude::*;
fn main() {
    let t0 = std::time::Instant::now();
    let mut flow = FlowBuilder::new();
    let node = flow.process::<()>();
    let (tx, rx) = vf_hydro_sim1::progs::ordered_batch(&node);
    let mut outs = std::collections::BTreeSet::new();
    let n = flow.sim().exhaustive(async || {
        tx.send(1); tx.send(2); tx.send(3);
        let all: Vec<Vec<u32>> = rx.collect().await;
        outs.insert(all);
    });
    println!("{n} instances, outs={outs:?}, {:?}", t0.elapsed());
}
