//! C36 — simulator decisions are sound.
use std::collections::BTreeSet;

use vf_explore::{Chooser, Report, Stats, Value, combi, explore, json, ncpu, par_map};

use crate::corpus::{self, Entry, LaneSpec};
use crate::driver::with_rec;
use crate::hooks::*;
use crate::simrun::{Obs, Verdict};

pub struct Bounds {
    pub max_init: usize,
    pub max_init_wide: usize,
    pub rounds: usize,
    pub max_new: usize,
    pub inline_items: usize,
    pub multi_pair_items: usize,
    pub multi_triple_items: usize,
    pub multi_triple_total: usize,
    pub prog_n: usize,
    pub cap: u64,
}

pub fn bounds(thorough: bool) -> Bounds {
    if thorough {
        Bounds { max_init: 4, max_init_wide: 3, rounds: 4, max_new: 1, inline_items: 4, multi_pair_items: 3, multi_triple_items: 3, multi_triple_total: 6, prog_n: 4, cap: 20_000_000_000 }
    } else {
        Bounds { max_init: 3, max_init_wide: 2, rounds: 3, max_new: 1, inline_items: 3, multi_pair_items: 2, multi_triple_items: 2, multi_triple_total: 4, prog_n: 3, cap: 50_000_000 }
    }
}

fn lanes_json(l: &[Lane]) -> Value {
    json!(l.iter().map(|(a, b)| vec![*a as u64, *b as u64]).collect::<Vec<_>>())
}
fn lanes_from(v: &Value) -> Vec<Lane> {
    v.as_array().unwrap().iter().map(|p| (p[0].as_u64().unwrap() as u8, p[1].as_u64().unwrap() as u8)).collect()
}
fn choices_from(v: &Value) -> Vec<usize> {
    v.as_array().unwrap().iter().map(|c| c.as_u64().unwrap() as usize).collect()
}

// ------------------------------------------------------------------------------------------
// A. one hook, successive decisions with arrivals in between

/// One execution: initial queue, then `rounds` x (force?, decision path, arrivals).
fn run_single(kind: Kind, init: &[Lane], rounds: usize, max_new: usize, ch: &mut Chooser, st: &mut Stats, verbose: bool) -> Result<(), Problem> {
    let mut s = Subject::new(kind);
    let mut next_id: Id = 0;
    s.arrive(init, &mut next_id);
    for round in 0..rounds {
        let can = s.live.hook().can_make_nontrivial_decision();
        if can != s.model.any_pending() && verbose {
            println!("  note: can_make_nontrivial_decision()={can} while the model has pending={:?}", s.model.pending);
        }
        let force = can && ch.choose_free(2) == 1;
        if s.may_decide(force) {
            st.eval();
            let before = s.model.clone();
            let obs = decide_and_judge(&mut s, ch, force, round == 0)?;
            st.nontrivial(&(kind, &before.pending, &before.last, force));
            st.outcome(&(kind, canon(kind, &before, &obs.out)));
            if verbose {
                println!("  round {round}: pending={:?} last={:?} force={force} -> released {:?} (new={})", before.pending, before.last, obs.out, obs.nontrivial);
            }
        } else if verbose {
            println!("  round {round}: no decision possible (pending={:?}, last={:?}, force={force})", s.model.pending, s.model.last);
        }
        if round + 1 < rounds {
            let arr = arrivals(ch, kind, max_new);
            s.arrive(&arr, &mut next_id);
            if verbose && !arr.is_empty() {
                println!("  arrivals on lanes {arr:?}");
            }
        }
    }
    Ok(())
}

fn single_section(b: &Bounds) -> Stats {
    let mut shards: Vec<(Kind, Vec<Lane>)> = vec![];
    for kind in ALL_KINDS {
        let lanes = kind.lanes();
        let max = if lanes.len() > 2 { b.max_init_wide } else { b.max_init };
        for init in combi::sequences_upto(&lanes, max) {
            shards.push((kind, init));
        }
    }
    let (rounds, max_new) = (b.rounds, b.max_new);
    let cap = b.cap / shards.len() as u64;
    par_map(shards.len(), ncpu(), |i| {
        let (kind, init) = &shards[i];
        let mut st = Stats::new();
        let mut found: Option<(Problem, Vec<usize>)> = None;
        let es = explore(None, cap, |ch| {
            if let Err(p) = run_single(*kind, init, rounds, max_new, ch, &mut st, false)
                && found.is_none()
            {
                found = Some((p, ch.choices()));
            }
        });
        if es.capped {
            st.cap(format!("hooks: {} init={init:?} stopped after {} executions", kind.name(), es.executions));
        }
        st.states += es.executions;
        if let Some((p, choices)) = found {
            // re-execute before reporting
            let mut ch = Chooser::replay(choices.clone());
            let again = run_single(*kind, init, rounds, max_new, &mut ch, &mut Stats::new(), false);
            match again {
                Err(p2) if p2.class == p.class => st.violation(
                    format!("C36/hook/{}/{}", kind.name(), p.class),
                    format!("{} with initial lanes {init:?}: {}", kind.name(), p.text),
                    json!({"section": "hooks", "kind": kind.name(), "init": lanes_json(init), "rounds": rounds, "max_new": max_new, "choices": choices}),
                ),
                _ => crate::driver::machinery(&format!("hook-level failure did not reproduce: {} {init:?} {choices:?}: {}", kind.name(), p.text)),
            }
        }
        st
    })
}

// ------------------------------------------------------------------------------------------
// B. inline (order observation) hooks

fn inline_section(b: &Bounds) -> Stats {
    let mut st = Stats::new();
    for kind in ALL_INLINE {
        let lanes = kind.lanes();
        let max = if lanes.len() > 2 { b.inline_items.min(3) } else { b.inline_items };
        for items in combi::sequences_upto(&lanes, max) {
            let mut found: Option<(Problem, Vec<usize>)> = None;
            explore(None, u64::MAX, |ch| {
                st.eval();
                let r = with_rec(ch, false, |d| run_inline(kind, &items, d)).unwrap_or_else(|p| Err(format!("panic: {p}")));
                let res = match r {
                    Ok(out) => {
                        st.outcome(&(kind, &items, canon_inline(kind, &out)));
                        st.nontrivial(&(kind, &items));
                        judge_inline(kind, &items, &out)
                    }
                    Err(t) => Err(Problem { class: "inline-failure", text: t, who: "" }),
                };
                if let Err(p) = res
                    && found.is_none()
                {
                    found = Some((p, ch.choices()));
                }
            });
            if let Some((p, choices)) = found {
                st.violation(
                    format!("C36/inline/{}/{}", kind.name(), p.class),
                    format!("{} over batch lanes {items:?}: {}", kind.name(), p.text),
                    json!({"section": "inline", "kind": kind.name(), "items": lanes_json(&items), "choices": choices}),
                );
            }
        }
    }
    st
}

// ------------------------------------------------------------------------------------------
// C. the multi-hook rule through the real run_hooks

fn run_multi(states: &[HookState], ch: &mut Chooser, st: &mut Stats, verbose: bool) -> Result<(), Problem> {
    let mut next_id: Id = 0;
    let mut subjects: Vec<Subject> = states.iter().map(|s| build_state(s, &mut next_id)).collect();
    let ready = subjects.iter_mut().all(|s| s.live.hook().is_ready());
    let cans: Vec<bool> = subjects.iter_mut().map(|s| s.live.hook().can_make_nontrivial_decision()).collect();
    if !ready || !cans.iter().any(|c| *c) {
        return Ok(()); // SimTick::can_run() is false: the scheduler never runs this tick
    }
    st.eval();
    let obs = run_tick(&mut subjects, ch)?;
    st.nontrivial(&states);
    st.outcome(&(states, &obs.outs));
    if verbose {
        println!("  tick over {:?}", states.iter().map(|s| s.label()).collect::<Vec<_>>());
        println!("  released per hook: {:?}  new per hook: {:?}", obs.outs, obs.nontrivial);
    }
    if !obs.nontrivial.iter().any(|n| *n) {
        return Err(Problem {
            class: "tick-released-nothing",
            text: format!("a tick was run (hooks able to release: {cans:?}) but no hook released a new item or snapshot: {:?}", obs.outs),
            who: "",
        });
    }
    Ok(())
}

fn multi_section(b: &Bounds, idle_only: bool) -> Stats {
    // Single hooks: every kind. Vectors of 2-3 hooks: only tick-input hooks (top-level hooks are
    // one observation each and never share a run_hooks call). A passthrough hook without a new
    // value next to siblings is swept separately (section `passthrough_idle`).
    let tick_kinds: Vec<Kind> = ALL_KINDS.iter().copied().filter(|k| !k.top_level()).collect();
    let singles = hook_states(&ALL_KINDS, b.multi_pair_items + 1);
    let big = hook_states(&tick_kinds, b.multi_pair_items);
    let small = hook_states(&tick_kinds, b.multi_triple_items);
    let idle_pt = |s: &HookState| s.kind == Kind::Passthrough && s.items.is_empty();
    let mut vectors: Vec<Vec<HookState>> = vec![];
    if !idle_only {
        for a in &singles {
            vectors.push(vec![a.clone()]);
        }
    }
    for a in &big {
        for c in &big {
            let v = vec![a.clone(), c.clone()];
            if v.iter().any(idle_pt) == idle_only {
                vectors.push(v);
            }
        }
    }
    for a in &small {
        for c in &small {
            for d in &small {
                if a.items.len() + c.items.len() + d.items.len() <= b.multi_triple_total {
                    let v = vec![a.clone(), c.clone(), d.clone()];
                    if v.iter().any(idle_pt) == idle_only {
                        vectors.push(v);
                    }
                }
            }
        }
    }
    let chunk = 256;
    let nchunks = vectors.len().div_ceil(chunk);
    let mut st = par_map(nchunks, ncpu(), |ci| {
        let mut st = Stats::new();
        for states in &vectors[ci * chunk..((ci + 1) * chunk).min(vectors.len())] {
            let mut found: Option<(Problem, Vec<usize>)> = None;
            let es = explore(None, 2_000_000, |ch| {
                if let Err(p) = run_multi(states, ch, &mut st, false)
                    && found.is_none()
                {
                    found = Some((p, ch.choices()));
                }
            });
            if es.capped {
                st.cap(format!("run_hooks: vector {:?} capped", states.iter().map(|s| s.label()).collect::<Vec<_>>()));
            }
            if let Some((p, choices)) = found {
                let mut ch = Chooser::replay(choices.clone());
                match run_multi(states, &mut ch, &mut Stats::new(), false) {
                    Err(p2) if p2.class == p.class => {}
                    _ => crate::driver::machinery(&format!("multi-hook failure did not reproduce: {}", p.text)),
                }
                // the culprit set: kinds of the hooks that had nothing to release
                let idle: BTreeSet<&str> = states.iter().filter(|s| s.items.is_empty()).map(|s| s.kind.name()).collect();
                let _ = &idle;
                let key = if idle_only {
                    format!("C36/run_hooks/passthrough-idle/{}", p.class)
                } else if !p.who.is_empty() {
                    format!("C36/run_hooks/{}/{}", p.class, p.who)
                } else {
                    format!("C36/run_hooks/{}", p.class)
                };
                st.violation(
                    key,
                    format!("tick with hooks {:?}: {}", states.iter().map(|s| s.label()).collect::<Vec<_>>(), p.text),
                    json!({"section": "run_hooks", "hooks": states.iter().map(|s| json!({"kind": s.kind.name(), "prepped": s.prepped, "items": lanes_json(&s.items)})).collect::<Vec<_>>(), "choices": choices}),
                );
            }
        }
        st
    });
    st.states += vectors.len() as u64;
    st
}

// ------------------------------------------------------------------------------------------
// D. programs

/// C36 oracle over the tick outputs of one simulated execution that ran to quiescence.
pub fn judge_obs(lanes: &[(u32, LaneSpec)], obs: &Obs) -> Result<(), Problem> {
    let bad = |class: &'static str, text: String| Err(Problem { class, text, who: "" });
    let mut delivered: Vec<Vec<u32>> = lanes.iter().map(|_| vec![]).collect();
    let mut last: Vec<Option<Vec<u32>>> = lanes.iter().map(|_| None).collect();
    for (t, tick) in obs.iter().enumerate() {
        let mut progress = false;
        let mut opaque = false;
        let mut seen = BTreeSet::new();
        for (lane, items) in tick {
            let Some(li) = lanes.iter().position(|(l, _)| l == lane) else {
                return bad("unknown-lane", format!("tick {t} carries lane/key {lane} that was never sent: {tick:?}"));
            };
            if !seen.insert(li) {
                return bad("released-twice", format!("tick {t} carries lane/key {lane} twice: {tick:?}"));
            }
            match &lanes[li].1 {
                LaneSpec::Opaque => opaque = true,
                LaneSpec::Ordered(all) => {
                    let d = &mut delivered[li];
                    let want: Vec<u32> = all.iter().skip(d.len()).take(items.len()).copied().collect();
                    if &want != items {
                        return bad("not-a-prefix", format!("tick {t} lane {lane}: batch {items:?} is not the next in-order prefix of the pending input {:?}", &all[d.len().min(all.len())..]));
                    }
                    progress |= !items.is_empty();
                    d.extend(items);
                }
                LaneSpec::Unordered(all) => {
                    let d = &mut delivered[li];
                    for i in items {
                        if d.contains(i) {
                            return bad("released-twice", format!("tick {t} lane {lane}: item {i} released twice"));
                        }
                        if !all.contains(i) {
                            return bad("not-pending", format!("tick {t} lane {lane}: item {i} was never sent"));
                        }
                        d.push(*i);
                    }
                    progress |= !items.is_empty();
                }
                LaneSpec::SnapPrefix(all) => {
                    if items.len() > all.len() || all[..items.len()] != items[..] {
                        return bad("bad-version", format!("tick {t} lane {lane}: snapshot {items:?} is not a version (prefix) of {all:?}"));
                    }
                    if let Some(l) = &last[li]
                        && items.len() < l.len()
                    {
                        return bad("went-back", format!("tick {t} lane {lane}: snapshot {items:?} after {l:?}"));
                    }
                    progress |= last[li].as_ref().is_none_or(|l| items.len() > l.len());
                    last[li] = Some(items.clone());
                }
                LaneSpec::SnapSubset(all) => {
                    let mut sorted = items.clone();
                    sorted.sort();
                    sorted.dedup();
                    if sorted.len() != items.len() || items.iter().any(|i| !all.contains(i)) {
                        return bad("bad-version", format!("tick {t} lane {lane}: snapshot {items:?} is not a sub-multiset of {all:?}"));
                    }
                    if let Some(l) = &last[li]
                        && l.iter().any(|i| !items.contains(i))
                    {
                        return bad("went-back", format!("tick {t} lane {lane}: snapshot {items:?} after {l:?}"));
                    }
                    progress |= last[li].as_ref().is_none_or(|l| items.len() > l.len());
                    last[li] = Some(items.clone());
                }
            }
        }
        for (li, (lane, spec)) in lanes.iter().enumerate() {
            if matches!(spec, LaneSpec::SnapPrefix(_) | LaneSpec::SnapSubset(_)) && last[li].is_some() && !seen.contains(&li) {
                return bad("went-back", format!("tick {t}: key {lane} had a snapshot value earlier but is missing now: {tick:?}"));
            }
        }
        if !progress && !opaque {
            return bad("tick-released-nothing", format!("tick {t} output {tick:?} carries no newly released item or snapshot (previous ticks: {:?})", &obs[..t]));
        }
    }
    for (li, (lane, spec)) in lanes.iter().enumerate() {
        match spec {
            LaneSpec::Ordered(all) if &delivered[li] != all => {
                return bad("lost", format!("lane {lane}: delivered {:?} of {all:?} at quiescence", delivered[li]));
            }
            LaneSpec::Unordered(all) => {
                let mut d = delivered[li].clone();
                d.sort();
                let mut a = all.clone();
                a.sort();
                if d != a {
                    return bad("lost", format!("lane {lane}: delivered {d:?} of {a:?} at quiescence"));
                }
            }
            _ => {}
        }
    }
    Ok(())
}

fn judge_run(e: &Entry, run: &crate::simrun::Run) -> Result<(), Problem> {
    match (&run.verdict, &run.obs) {
        (Verdict::Ok, Some(obs)) => judge_obs(&e.lanes, obs),
        (Verdict::Panic(m), _) => Err(Problem { class: "panic", text: format!("simulation instance panicked: {m}"), who: "" }),
        (v, _) => Err(Problem { class: "no-observation", text: format!("instance ended with {v:?} without an observation"), who: "" }),
    }
}

/// All decision vectors of one program (runs inside a child process, see jobs.rs).
pub fn program_job(name: &str, n: usize) -> Stats {
    let cap = 300_000u64;
    let mut st = Stats::new();
    let e = corpus::build(name, n);
    let mut found: Option<(Problem, Vec<usize>)> = None;
    let es = explore(None, cap, |ch| {
        st.eval();
        let run = e.sim.run_driver(ch, false, true);
        st.nontrivial(&(name, &run.decisions));
        st.outcome(&(name, &run.obs));
        st.sample(|| json!({"program": name, "inputs": e.inputs, "decisions": run.decisions.len(), "tick_outputs": format!("{:?}", run.obs)}));
        if let Err(p) = judge_run(&e, &run)
            && found.is_none()
        {
            found = Some((p, ch.choices()));
        }
    });
    if es.capped {
        st.cap(format!("program {name}: stopped after {} executions", es.executions));
    }
    println!("  program {name}: {} executions, max {} decisions", es.executions, es.max_points);
    if let Some((p, choices)) = found {
        let again = e.run_prefix(choices.clone(), true);
        match judge_run(&e, &again) {
            Err(p2) if p2.class == p.class => st.violation(
                format!("C36/prog/{name}/{}", p.class),
                format!("program {name} ({}): {}", e.inputs, p.text),
                json!({"section": "programs", "program": name, "n": n, "choices": choices}),
            ),
            _ => crate::driver::machinery(&format!("program-level failure did not reproduce: {name} {choices:?}: {}", p.text)),
        }
    }
    st
}

fn program_section(b: &Bounds, names: &[&str]) -> Stats {
    // the last program is known to bring the simulator down on the unchanged tree: alone
    let specs: Vec<Value> = names.iter().map(|n| json!({"program": n, "n": b.prog_n, "solo": *n == "batch_and_hooked_fold_snapshot"})).collect();
    if crate::jobs::skip_programs() {
        let mut st = Stats::new();
        st.cap("program level skipped on request (VF_SIM1_SKIP_PROGRAMS)");
        return st;
    }
    let (st, lines) = crate::jobs::run_programs("c36prog", &specs, "C36/prog");
    for l in lines {
        println!("{l}");
    }
    st
}

pub fn run(rep: &mut Report) {
    let b = bounds(rep.thorough());
    rep.rule = "hook level: one case = (hook kind, pending queue contents incl. last released snapshot, force flag) and one decision path through the hook; \
                run_hooks: one case = an ordered vector of 1-3 hook states that SimTick::can_run accepts; programs: one case = one complete decision vector of a simulated execution. \
                Distinct outcomes = distinct released batches / tick outputs."
        .into();
    rep.explanation = "Real SimHook/SimInlineHook structs over queues of uniquely tagged items, every decision path enumerated by a harness-implemented bolero driver; \
                       released items compared with a reference model of the pending queue (prefix / sub-multiset / snapshot version, leftover, no double release, forced decisions release something new); \
                       the real run_hooks over hook vectors (some hook must release something new); small programs whose tick outputs carry the released batch, all decision vectors."
        .into();
    rep.assume("items are distinguishable by unique ids; snapshot versions are ordered by arrival");
    rep.assume("preconditions of the scheduler are respected: force_nontrivial only when can_make_nontrivial_decision(), ticks only when every hook is_ready() and some hook can release");
    rep.assume("trusted base: vf_explore DFS, the recording driver (each gen_* call = one enumerated choice), dfir_rs unsync mpsc channel");
    rep.bound("max_initial_items", b.max_init);
    rep.bound("max_initial_items_4_lane_hooks", b.max_init_wide);
    rep.bound("successive_decisions", b.rounds);
    rep.bound("arrivals_between_decisions", b.max_new);
    rep.bound("keys", 2);
    rep.bound("inline_batch_items", b.inline_items);
    rep.bound("run_hooks_vector_len", 3);
    rep.bound("run_hooks_items_pairs", b.multi_pair_items);
    rep.bound("run_hooks_items_triples", b.multi_triple_items);
    rep.bound("run_hooks_total_items_triples", b.multi_triple_total);
    rep.bound("program_input_items", b.prog_n);
    let t = std::time::Instant::now();
    let s = single_section(&b);
    println!("  hooks: {} decisions judged, {} executions, {:.1}s", s.evaluations, s.states, t.elapsed().as_secs_f64());
    rep.section("hooks", s);
    let t = std::time::Instant::now();
    let s = inline_section(&b);
    println!("  inline: {} observations judged, {:.1}s", s.evaluations, t.elapsed().as_secs_f64());
    rep.section("inline", s);
    let t = std::time::Instant::now();
    let s = multi_section(&b, false);
    println!("  run_hooks: {} ticks judged over {} vectors, {:.1}s", s.evaluations, s.states, t.elapsed().as_secs_f64());
    rep.section("run_hooks", s);
    let s = multi_section(&b, true);
    println!("  run_hooks with an idle passthrough hook: {} ticks judged over {} vectors", s.evaluations, s.states);
    rep.section("passthrough_idle", s);
    let t = std::time::Instant::now();
    let s = program_section(&b, &corpus::C36_PROGRAMS);
    println!("  programs: {} executions judged, {:.1}s", s.evaluations, t.elapsed().as_secs_f64());
    rep.section("programs", s);
}

pub fn replay(case: &Value) -> bool {
    let section = case["section"].as_str().unwrap_or("");
    if section == "crash" {
        return crate::jobs::replay_crash(case);
    }
    let choices = choices_from(&case["choices"]);
    let res: Result<(), Problem> = match section {
        "hooks" => {
            let kind = Kind::from_name(case["kind"].as_str().unwrap()).unwrap();
            let init = lanes_from(&case["init"]);
            println!("replay: {} initial lanes {init:?}, decision vector {choices:?}", kind.name());
            let mut ch = Chooser::replay(choices);
            run_single(kind, &init, case["rounds"].as_u64().unwrap() as usize, case["max_new"].as_u64().unwrap() as usize, &mut ch, &mut Stats::new(), true)
        }
        "inline" => {
            let kind = InlineKind::from_name(case["kind"].as_str().unwrap()).unwrap();
            let items = lanes_from(&case["items"]);
            let mut ch = Chooser::replay(choices);
            let r = with_rec(&mut ch, false, |d| run_inline(kind, &items, d)).unwrap_or_else(|p| Err(format!("panic: {p}")));
            println!("replay: {} over lanes {items:?} -> {r:?}", kind.name());
            match r {
                Ok(out) => judge_inline(kind, &items, &out),
                Err(t) => Err(Problem { class: "inline-failure", text: t, who: "" }),
            }
        }
        "run_hooks" => {
            let states: Vec<HookState> = case["hooks"]
                .as_array()
                .unwrap()
                .iter()
                .map(|h| HookState {
                    kind: Kind::from_name(h["kind"].as_str().unwrap()).unwrap(),
                    prepped: h["prepped"].as_bool().unwrap(),
                    items: lanes_from(&h["items"]),
                })
                .collect();
            let mut ch = Chooser::replay(choices);
            run_multi(&states, &mut ch, &mut Stats::new(), true)
        }
        "programs" => {
            let name = case["program"].as_str().unwrap();
            let e = corpus::build(name, case["n"].as_u64().unwrap() as usize);
            let run = e.run_prefix(choices, true);
            println!("replay: program {name} ({}): verdict {:?}\n  decisions {:?}\n  tick outputs {:?}", e.inputs, run.verdict, run.decisions, run.obs);
            judge_run(&e, &run)
        }
        "crash" => return crate::jobs::replay_crash(case),
        other => {
            println!("unknown replay section {other}");
            return false;
        }
    };
    match res {
        Ok(()) => {
            println!("replay: no violation observed");
            false
        }
        Err(p) => {
            println!("replay: VIOLATION [{}] {}", p.class, p.text);
            true
        }
    }
}
