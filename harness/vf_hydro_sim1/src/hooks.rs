//! Hook level: the real `SimHook` / `SimInlineHook` structs from `hydro_lang::sim::runtime`, built
//! directly over small queues of uniquely tagged items, next to a reference model of what is
//! pending. Every decision is drawn from a driver the harness controls.
use std::cell::RefCell;
use std::collections::{BTreeMap, BTreeSet, VecDeque};
use std::marker::PhantomData;
use std::rc::Rc;

use bolero::generator::bolero_generator as bg;
use dfir_rs::rustc_hash::FxHashMap;
use dfir_rs::util::unsync::mpsc::{Receiver, unbounded};
use hydro_lang::live_collections::stream::{NoOrder, TotalOrder};
use hydro_lang::sim::runtime::*;
use vf_explore::{Chooser, catch};

use crate::driver::{RecDriver, with_rec};

pub type Id = u32;
pub type K = u8;
/// (input side, key); unkeyed hooks use key 0, single-input hooks side 0.
pub type Lane = (u8, K);
pub const KEYS: [K; 2] = [1, 2];

const LOC: (&str, &str, &str) = ("vf_hydro_sim1::hooks", " <hook under test>", " ");

fn dbg_id(v: &Id) -> Option<String> {
    Some(format!("{v}"))
}
fn dbg_kv(v: &(K, Id)) -> Option<String> {
    Some(format!("{v:?}"))
}
fn dbg_k(v: &K) -> Option<String> {
    Some(format!("{v}"))
}

#[derive(Clone, Copy, PartialEq, Eq, Debug, Hash, PartialOrd, Ord)]
pub enum Kind {
    StreamTotal,
    StreamNo,
    KeyedTotal,
    KeyedNo,
    Singleton,
    Passthrough,
    KeyedSingleton,
    TlOrder,
    TlFold,
    TlKeyedOrder,
    TlPartial,
    TlMerge,
    TlKeyedMerge,
}
pub const ALL_KINDS: [Kind; 13] = [
    Kind::StreamTotal,
    Kind::StreamNo,
    Kind::KeyedTotal,
    Kind::KeyedNo,
    Kind::Singleton,
    Kind::Passthrough,
    Kind::KeyedSingleton,
    Kind::TlOrder,
    Kind::TlFold,
    Kind::TlKeyedOrder,
    Kind::TlPartial,
    Kind::TlMerge,
    Kind::TlKeyedMerge,
];

#[derive(Clone, Copy, PartialEq, Eq, Debug)]
pub enum Policy {
    /// Totally ordered lane: a release is an in-order prefix of the lane.
    Prefix,
    /// Unordered lane: a release is any subset of the lane.
    Subset,
    /// Snapshot lane: a release is one version, never older than the last one.
    Snapshot,
}

impl Kind {
    pub fn name(self) -> &'static str {
        match self {
            Kind::StreamTotal => "StreamHook<TotalOrder>",
            Kind::StreamNo => "StreamHook<NoOrder>",
            Kind::KeyedTotal => "KeyedStreamHook<TotalOrder>",
            Kind::KeyedNo => "KeyedStreamHook<NoOrder>",
            Kind::Singleton => "SingletonHook",
            Kind::Passthrough => "PassthroughSingletonHook",
            Kind::KeyedSingleton => "KeyedSingletonHook",
            Kind::TlOrder => "TopLevelStreamOrderHook",
            Kind::TlFold => "TopLevelFoldHook",
            Kind::TlKeyedOrder => "TopLevelKeyedStreamOrderHook",
            Kind::TlPartial => "TopLevelPartiallyOrderedStreamHook",
            Kind::TlMerge => "TopLevelMergeOrderedHook",
            Kind::TlKeyedMerge => "TopLevelKeyedMergeOrderedHook",
        }
    }
    pub fn from_name(s: &str) -> Option<Kind> {
        ALL_KINDS.iter().copied().find(|k| k.name() == s)
    }
    pub fn policy(self) -> Policy {
        match self {
            Kind::StreamTotal | Kind::KeyedTotal | Kind::TlPartial | Kind::TlMerge | Kind::TlKeyedMerge => Policy::Prefix,
            Kind::StreamNo | Kind::KeyedNo | Kind::TlOrder | Kind::TlFold | Kind::TlKeyedOrder => Policy::Subset,
            Kind::Singleton | Kind::Passthrough | Kind::KeyedSingleton => Policy::Snapshot,
        }
    }
    pub fn lanes(self) -> Vec<Lane> {
        match self {
            Kind::StreamTotal | Kind::StreamNo | Kind::Singleton | Kind::Passthrough | Kind::TlOrder | Kind::TlFold => {
                vec![(0, 0)]
            }
            Kind::KeyedTotal | Kind::KeyedNo | Kind::KeyedSingleton | Kind::TlKeyedOrder | Kind::TlPartial => {
                KEYS.iter().map(|k| (0, *k)).collect()
            }
            Kind::TlMerge => vec![(0, 0), (1, 0)],
            Kind::TlKeyedMerge => vec![(0, KEYS[0]), (0, KEYS[1]), (1, KEYS[0]), (1, KEYS[1])],
        }
    }
    /// Hooks that sit at the top level are resolved one per "observation" and are therefore always
    /// forced; tick hooks see both values of `force_nontrivial`.
    pub fn top_level(self) -> bool {
        matches!(
            self,
            Kind::TlOrder | Kind::TlFold | Kind::TlKeyedOrder | Kind::TlPartial | Kind::TlMerge | Kind::TlKeyedMerge
        )
    }
}

enum Inputs {
    Flat(Rc<RefCell<VecDeque<Id>>>),
    Keyed(Rc<RefCell<FxHashMap<K, VecDeque<Id>>>>),
    Flat2(Rc<RefCell<VecDeque<Id>>>, Rc<RefCell<VecDeque<Id>>>),
    Keyed2(Rc<RefCell<FxHashMap<K, VecDeque<Id>>>>, Rc<RefCell<FxHashMap<K, VecDeque<Id>>>>),
}

enum Outputs {
    Flat(Receiver<Id>),
    Keyed(Receiver<(K, Id)>),
    Batch(Receiver<Vec<Id>>),
}

fn drain_rx<T>(rx: &mut Receiver<T>) -> Vec<T> {
    let waker = futures::task::noop_waker();
    let cx = std::task::Context::from_waker(&waker);
    let mut out = vec![];
    while let std::task::Poll::Ready(Some(v)) = rx.poll_recv(&cx) {
        out.push(v);
    }
    out
}

/// One real hook plus the harness-side handles to its input queue(s) and output channel.
pub struct Live {
    pub kind: Kind,
    pub hook: Option<Box<dyn SimHook>>,
    inputs: Inputs,
    outputs: Outputs,
}

impl Live {
    pub fn new(kind: Kind) -> Live {
        fn flat() -> Rc<RefCell<VecDeque<Id>>> {
            Rc::new(RefCell::new(VecDeque::new()))
        }
        fn keyed() -> Rc<RefCell<FxHashMap<K, VecDeque<Id>>>> {
            Rc::new(RefCell::new(FxHashMap::default()))
        }
        let (hook, inputs, outputs): (Box<dyn SimHook>, Inputs, Outputs) = match kind {
            Kind::StreamTotal => {
                let i = flat();
                let (tx, rx) = unbounded();
                (
                    Box::new(StreamHook::<Id, TotalOrder> {
                        input: i.clone(),
                        to_release: None,
                        output: tx,
                        batch_location: LOC,
                        format_item_debug: dbg_id,
                        _order: PhantomData,
                    }),
                    Inputs::Flat(i),
                    Outputs::Flat(rx),
                )
            }
            Kind::StreamNo => {
                let i = flat();
                let (tx, rx) = unbounded();
                (
                    Box::new(StreamHook::<Id, NoOrder> {
                        input: i.clone(),
                        to_release: None,
                        output: tx,
                        batch_location: LOC,
                        format_item_debug: dbg_id,
                        _order: PhantomData,
                    }),
                    Inputs::Flat(i),
                    Outputs::Flat(rx),
                )
            }
            Kind::KeyedTotal => {
                let i = keyed();
                let (tx, rx) = unbounded();
                (
                    Box::new(KeyedStreamHook::<K, Id, TotalOrder> {
                        input: i.clone(),
                        to_release: None,
                        output: tx,
                        batch_location: LOC,
                        format_item_debug: dbg_kv,
                        _order: PhantomData,
                    }),
                    Inputs::Keyed(i),
                    Outputs::Keyed(rx),
                )
            }
            Kind::KeyedNo => {
                let i = keyed();
                let (tx, rx) = unbounded();
                (
                    Box::new(KeyedStreamHook::<K, Id, NoOrder> {
                        input: i.clone(),
                        to_release: None,
                        output: tx,
                        batch_location: LOC,
                        format_item_debug: dbg_kv,
                        _order: PhantomData,
                    }),
                    Inputs::Keyed(i),
                    Outputs::Keyed(rx),
                )
            }
            Kind::Singleton => {
                let i = flat();
                let (tx, rx) = unbounded();
                (Box::new(SingletonHook::new(i.clone(), tx, LOC, dbg_id)), Inputs::Flat(i), Outputs::Flat(rx))
            }
            Kind::Passthrough => {
                let i = flat();
                let (tx, rx) = unbounded();
                (Box::new(PassthroughSingletonHook::new(i.clone(), tx, LOC, dbg_id)), Inputs::Flat(i), Outputs::Flat(rx))
            }
            Kind::KeyedSingleton => {
                let i = keyed();
                let (tx, rx) = unbounded();
                (
                    Box::new(KeyedSingletonHook::new(i.clone(), tx, LOC, dbg_k, dbg_id)),
                    Inputs::Keyed(i),
                    Outputs::Keyed(rx),
                )
            }
            Kind::TlOrder => {
                let i = flat();
                let (tx, rx) = unbounded();
                (
                    Box::new(TopLevelStreamOrderHook::<Id> {
                        input: i.clone(),
                        to_release: None,
                        output: tx,
                        location: LOC,
                        format_item_debug: dbg_id,
                    }),
                    Inputs::Flat(i),
                    Outputs::Flat(rx),
                )
            }
            Kind::TlFold => {
                let i = flat();
                let (tx, rx) = unbounded();
                (
                    Box::new(TopLevelFoldHook::<Id> {
                        input: i.clone(),
                        to_release: None,
                        output: tx,
                        location: LOC,
                        format_item_debug: dbg_id,
                    }),
                    Inputs::Flat(i),
                    Outputs::Batch(rx),
                )
            }
            Kind::TlKeyedOrder => {
                let i = keyed();
                let (tx, rx) = unbounded();
                (
                    Box::new(TopLevelKeyedStreamOrderHook::<K, Id> {
                        input: i.clone(),
                        to_release: None,
                        output: tx,
                        location: LOC,
                        format_item_debug: dbg_kv,
                    }),
                    Inputs::Keyed(i),
                    Outputs::Keyed(rx),
                )
            }
            Kind::TlPartial => {
                let i = keyed();
                let (tx, rx) = unbounded();
                (
                    Box::new(TopLevelPartiallyOrderedStreamHook::<K, Id> {
                        input: i.clone(),
                        to_release: None,
                        output: tx,
                        location: LOC,
                        format_item_debug: dbg_kv,
                    }),
                    Inputs::Keyed(i),
                    Outputs::Keyed(rx),
                )
            }
            Kind::TlMerge => {
                let a = flat();
                let b = flat();
                let (tx, rx) = unbounded();
                (
                    Box::new(TopLevelMergeOrderedHook::<Id> {
                        first: a.clone(),
                        second: b.clone(),
                        to_release: None,
                        release_source: None,
                        output: tx,
                        location: LOC,
                        format_item_debug: dbg_id,
                    }),
                    Inputs::Flat2(a, b),
                    Outputs::Flat(rx),
                )
            }
            Kind::TlKeyedMerge => {
                let a = keyed();
                let b = keyed();
                let (tx, rx) = unbounded();
                (
                    Box::new(TopLevelKeyedMergeOrderedHook::<K, Id> {
                        first: a.clone(),
                        second: b.clone(),
                        to_release: None,
                        release_source: None,
                        output: tx,
                        location: LOC,
                        format_item_debug: dbg_kv,
                    }),
                    Inputs::Keyed2(a, b),
                    Outputs::Keyed(rx),
                )
            }
        };
        Live { kind, hook: Some(hook), inputs, outputs }
    }

    pub fn hook(&mut self) -> &mut dyn SimHook {
        &mut **self.hook.as_mut().unwrap()
    }

    /// An item arrives on `lane` (what the generated `for_each(push_back)` does).
    pub fn push(&mut self, lane: Lane, id: Id) {
        match &self.inputs {
            Inputs::Flat(q) => q.borrow_mut().push_back(id),
            Inputs::Keyed(m) => m.borrow_mut().entry(lane.1).or_default().push_back(id),
            Inputs::Flat2(a, b) => (if lane.0 == 0 { a } else { b }).borrow_mut().push_back(id),
            Inputs::Keyed2(a, b) => (if lane.0 == 0 { a } else { b }).borrow_mut().entry(lane.1).or_default().push_back(id),
        }
    }

    /// What is still queued inside the real hook, per lane (empty lanes omitted).
    pub fn leftover(&self) -> BTreeMap<Lane, Vec<Id>> {
        let mut out = BTreeMap::new();
        let mut flat = |side: u8, q: &Rc<RefCell<VecDeque<Id>>>| {
            let v: Vec<Id> = q.borrow().iter().copied().collect();
            if !v.is_empty() {
                out.insert((side, 0), v);
            }
        };
        match &self.inputs {
            Inputs::Flat(q) => flat(0, q),
            Inputs::Flat2(a, b) => {
                flat(0, a);
                flat(1, b);
            }
            Inputs::Keyed(m) => {
                for (k, q) in m.borrow().iter() {
                    if !q.is_empty() {
                        out.insert((0, *k), q.iter().copied().collect());
                    }
                }
            }
            Inputs::Keyed2(a, b) => {
                for (side, m) in [(0u8, a), (1u8, b)] {
                    for (k, q) in m.borrow().iter() {
                        if !q.is_empty() {
                            out.insert((side, *k), q.iter().copied().collect());
                        }
                    }
                }
            }
        }
        out
    }

    /// Everything sent on the output channel since the last drain: (key, id) in emission order,
    /// plus the number of channel messages.
    pub fn drain(&mut self) -> (Vec<(K, Id)>, usize) {
        match &mut self.outputs {
            Outputs::Flat(rx) => {
                let v = drain_rx(rx);
                let n = v.len();
                (v.into_iter().map(|i| (0, i)).collect(), n)
            }
            Outputs::Keyed(rx) => {
                let v = drain_rx(rx);
                let n = v.len();
                (v, n)
            }
            Outputs::Batch(rx) => {
                let v = drain_rx(rx);
                let n = v.len();
                (v.into_iter().flatten().map(|i| (0, i)).collect(), n)
            }
        }
    }
}

/// Reference model of one hook: what is pending per lane, and the last released snapshot per key.
#[derive(Clone, Debug, Default, PartialEq, Eq, Hash, PartialOrd, Ord)]
pub struct Model {
    pub pending: BTreeMap<Lane, Vec<Id>>,
    pub last: BTreeMap<K, Id>,
    pub released: BTreeSet<Id>,
}

impl Model {
    pub fn push(&mut self, lane: Lane, id: Id) {
        self.pending.entry(lane).or_default().push(id);
    }
    pub fn any_pending(&self) -> bool {
        self.pending.values().any(|v| !v.is_empty())
    }
    fn clean(&mut self) {
        self.pending.retain(|_, v| !v.is_empty());
    }
}

pub struct Problem {
    pub class: &'static str,
    pub text: String,
    /// the hook kind the problem is attributed to ("" = the tick / program as a whole)
    pub who: &'static str,
}

fn problem<T>(class: &'static str, text: String) -> Result<T, Problem> {
    Err(Problem { class, text, who: "" })
}

/// C36 oracle for ONE release of one hook: `out` is what came out of the channel, `left` what the
/// real hook still queues. Updates the model; returns whether something NEW was released.
pub fn judge(kind: Kind, m: &mut Model, out: &[(K, Id)], left: &BTreeMap<Lane, Vec<Id>>) -> Result<bool, Problem> {
    m.clean();
    let mut expect_left = m.pending.clone();
    let nontrivial;
    match kind.policy() {
        Policy::Prefix | Policy::Subset => {
            let mut per_lane: BTreeMap<Lane, Vec<Id>> = BTreeMap::new();
            let mut seen = BTreeSet::new();
            for (k, id) in out {
                if m.released.contains(id) {
                    return problem("released-twice", format!("item {id} was already released in an earlier decision"));
                }
                if !seen.insert(*id) {
                    return problem("released-twice", format!("item {id} appears twice in one release {out:?}"));
                }
                let lane = m.pending.iter().find(|(l, v)| l.1 == *k && v.contains(id)).map(|(l, _)| *l);
                match lane {
                    Some(l) => per_lane.entry(l).or_default().push(*id),
                    None => {
                        return problem("not-pending", format!("released ({k},{id}) which is not pending under that key; pending={:?}", m.pending));
                    }
                }
            }
            for (lane, rel) in &per_lane {
                let pend = &m.pending[lane];
                if kind.policy() == Policy::Prefix && pend[..rel.len()] != rel[..] {
                    return problem("not-a-prefix", format!("lane {lane:?}: released {rel:?} is not the in-order prefix of pending {pend:?}"));
                }
                let rest: Vec<Id> = pend.iter().copied().filter(|i| !rel.contains(i)).collect();
                expect_left.insert(*lane, rest);
            }
            nontrivial = !out.is_empty();
            m.released.extend(out.iter().map(|(_, i)| *i));
        }
        Policy::Snapshot => {
            let mut any_new = false;
            let mut seen_keys = BTreeSet::new();
            for (k, id) in out {
                if !seen_keys.insert(*k) {
                    return problem("snapshot-twice", format!("two snapshot values for key {k} in one release {out:?}"));
                }
                let lane = (0u8, *k);
                let pend = m.pending.get(&lane).cloned().unwrap_or_default();
                if let Some(last) = m.last.get(k)
                    && id < last
                {
                    return problem("went-back", format!("key {k}: released version {id} after version {last}"));
                }
                if let Some(pos) = pend.iter().position(|p| p == id) {
                    any_new = true;
                    expect_left.insert(lane, pend[pos + 1..].to_vec());
                    m.last.insert(*k, *id);
                } else if m.last.get(k) == Some(id) {
                    // unchanged snapshot re-released
                } else {
                    return problem("not-pending", format!("key {k}: released version {id} which is neither pending {pend:?} nor the last released {:?}", m.last.get(k)));
                }
            }
            for k in m.last.keys() {
                if !seen_keys.contains(k) && kind != Kind::Passthrough {
                    return problem("went-back", format!("key {k} had a released value but is missing from the snapshot {out:?}"));
                }
            }
            if kind == Kind::Singleton && out.len() != 1 {
                return problem("snapshot-count", format!("singleton snapshot released {} values", out.len()));
            }
            nontrivial = any_new;
        }
    }
    expect_left.retain(|_, v| !v.is_empty());
    if &expect_left != left {
        return problem(
            "leftover",
            format!("queue after release is {left:?}, expected pending minus released in original order = {expect_left:?} (pending was {:?}, released {out:?})", m.pending),
        );
    }
    m.pending = expect_left;
    Ok(nontrivial)
}

/// Enumerate (with free choice points) up to `max_new` arriving items, on any lane of the hook.
pub fn arrivals(ch: &mut Chooser, kind: Kind, max_new: usize) -> Vec<Lane> {
    let lanes = kind.lanes();
    let n = ch.choose_free(max_new + 1);
    (0..n).map(|_| lanes[ch.choose_free(lanes.len())]).collect()
}

pub struct Subject {
    pub live: Live,
    pub model: Model,
}

impl Subject {
    pub fn new(kind: Kind) -> Self {
        Subject { live: Live::new(kind), model: Model::default() }
    }
    pub fn arrive(&mut self, lanes: &[Lane], next_id: &mut Id) {
        for l in lanes {
            *next_id += 1;
            self.live.push(*l, *next_id);
            self.model.push(*l, *next_id);
        }
    }
    /// Can a tick containing only this hook make this decision? (`force` needs pending input; a
    /// singleton must be ready; a passthrough hook without input has nothing to decide.)
    pub fn may_decide(&mut self, force: bool) -> bool {
        let can = self.live.hook().can_make_nontrivial_decision();
        if !self.live.hook().is_ready() {
            return false;
        }
        if force && !can {
            return false;
        }
        if self.live.kind == Kind::Passthrough && !can {
            return false;
        }
        if self.live.kind == Kind::KeyedSingleton && !can && self.model.last.is_empty() {
            // nothing ever arrived: a trivial "release nothing" — allowed, but uninteresting
            return true;
        }
        true
    }
}

#[derive(Debug, Clone)]
pub struct StepObs {
    pub out: Vec<(K, Id)>,
    pub nontrivial: bool,
}

/// One autonomous decision + release of a single hook with decisions from the explorer, judged.
pub fn decide_and_judge(s: &mut Subject, ch: &mut Chooser, force: bool, log: bool) -> Result<StepObs, Problem> {
    let can = s.live.hook().can_make_nontrivial_decision();
    let kind = s.live.kind;
    let hook = s.live.hook.as_mut().unwrap();
    let r = with_rec(ch, false, |b| hook.autonomous_decision(b, force));
    if let Err(p) = r {
        return problem("panic", format!("autonomous_decision panicked: {p}"));
    }
    let mut text = String::new();
    let rel = catch(|| hook.release_decision(if log { Some(&mut text) } else { None }));
    if let Err(p) = rel {
        return problem("panic", format!("release_decision panicked: {p}"));
    }
    let (out, _msgs) = s.live.drain();
    let left = s.live.leftover();
    let nontrivial = judge(kind, &mut s.model, &out, &left)?;
    if force && can && !nontrivial {
        return problem("force-trivial", format!("force_nontrivial with pending input released nothing new (released {out:?})"));
    }
    Ok(StepObs { out, nontrivial })
}

// ---------------------------------------------------------------------------------------------
// Multi-hook rule through the real `run_hooks`.

/// The state one hook of a tick is put in before `run_hooks`: `prepped` = a snapshot was already
/// released once (so the hook can re-release it); `items` = what is pending.
#[derive(Clone, Debug, PartialEq, Eq, Hash, PartialOrd, Ord)]
pub struct HookState {
    pub kind: Kind,
    pub prepped: bool,
    pub items: Vec<Lane>,
}

impl HookState {
    pub fn label(&self) -> String {
        format!("{}{}{:?}", self.kind.name(), if self.prepped { "+last" } else { "" }, self.items)
    }
}

pub fn hook_states(kinds: &[Kind], max_items: usize) -> Vec<HookState> {
    let mut out = vec![];
    for &kind in kinds {
        let lanes = kind.lanes();
        let preps: &[bool] = if kind.policy() == Policy::Snapshot && kind != Kind::Passthrough { &[false, true] } else { &[false] };
        for &prepped in preps {
            for items in vf_explore::combi::sequences_upto(&lanes, max_items) {
                out.push(HookState { kind, prepped, items });
            }
        }
    }
    out
}

pub fn build_state(st: &HookState, next_id: &mut Id) -> Subject {
    let mut s = Subject::new(st.kind);
    if st.prepped {
        // one version per key arrives and is released with the all-default decision
        let lanes = st.kind.lanes();
        s.arrive(&lanes, next_id);
        let mut ch = Chooser::replay(vec![]);
        let hook = s.live.hook.as_mut().unwrap();
        with_rec(&mut ch, false, |b| hook.autonomous_decision(b, true)).expect("prep decision");
        hook.release_decision(None);
        let (out, _) = s.live.drain();
        let left = s.live.leftover();
        if judge(st.kind, &mut s.model, &out, &left).is_err() || s.model.any_pending() {
            crate::driver::machinery("snapshot hook preparation did not release the prepared versions");
        }
    }
    s.arrive(&st.items, next_id);
    s
}

pub struct TickObs {
    pub nontrivial: Vec<bool>,
    pub outs: Vec<Vec<(K, Id)>>,
    pub log: String,
}

/// Run the real multi-hook decision procedure over `subjects` with decisions from the explorer.
/// Precondition (what `SimTick::can_run` guarantees): all hooks ready, at least one can release.
pub fn run_tick(subjects: &mut [Subject], ch: &mut Chooser) -> Result<TickObs, Problem> {
    let mut hooks: Vec<Box<dyn SimHook>> = subjects.iter_mut().map(|s| s.live.hook.take().unwrap()).collect();
    let inner = std::mem::replace(ch, Chooser::replay(vec![]));
    let mut d = RecDriver::new(inner);
    d.costly = false;
    let (d, res) = bg::any::scope::with(Box::new(d), || catch(|| hydro_lang::sim::compiled::verif_run_hooks(&mut hooks)));
    *ch = d.ch;
    for (s, h) in subjects.iter_mut().zip(hooks) {
        s.live.hook = Some(h);
    }
    let log = match res {
        Ok(l) => l,
        Err(p) => return problem("run_hooks-panic", format!("run_hooks panicked: {p}")),
    };
    let mut nontrivial = vec![];
    let mut outs = vec![];
    for (i, s) in subjects.iter_mut().enumerate() {
        let (out, _) = s.live.drain();
        let left = s.live.leftover();
        match judge(s.live.kind, &mut s.model, &out, &left) {
            Ok(n) => nontrivial.push(n),
            Err(mut p) => {
                p.text = format!("hook #{i} ({}): {}", s.live.kind.name(), p.text);
                p.who = s.live.kind.name();
                return Err(p);
            }
        }
        outs.push(out);
    }
    Ok(TickObs { nontrivial, outs, log })
}

// ---------------------------------------------------------------------------------------------
// Reference enumeration of the legal decision space (C37a): all releases the property promises.

/// A release in canonical form: per lane the released ids (sorted for unordered lanes, since the
/// order inside an unordered batch is not a distinct schedule), or for snapshots (key -> version).
pub type Canon = Vec<(Lane, Vec<Id>)>;

pub fn canon(kind: Kind, before: &Model, out: &[(K, Id)]) -> Canon {
    let mut per: BTreeMap<Lane, Vec<Id>> = BTreeMap::new();
    for (k, id) in out {
        let lane = before
            .pending
            .iter()
            .find(|(l, v)| l.1 == *k && v.contains(id))
            .map(|(l, _)| *l)
            .unwrap_or((9, *k)); // (9,k): a re-released snapshot / unknown item
        per.entry(lane).or_default().push(*id);
    }
    if kind.policy() == Policy::Subset && kind != Kind::TlFold {
        for v in per.values_mut() {
            v.sort();
        }
    }
    per.into_iter().collect()
}

fn product<T: Clone>(parts: &[Vec<T>]) -> Vec<Vec<T>> {
    let mut out = vec![vec![]];
    for p in parts {
        let mut next = vec![];
        for o in &out {
            for x in p {
                let mut t = o.clone();
                t.push(x.clone());
                next.push(t);
            }
        }
        out = next;
    }
    out
}

/// Every legal release of one decision, with the model state after it. Written from the property
/// statement / operator semantics, not from the hook code.
pub fn legal_releases(kind: Kind, m: &Model, force: bool) -> Vec<(Canon, Model)> {
    use vf_explore::combi::{permutations, subsets};
    let mut m = m.clone();
    m.clean();
    let lanes: Vec<Lane> = m.pending.keys().copied().collect();
    let mut res: Vec<(Canon, Model)> = vec![];
    let apply = |rel: &[(Lane, Vec<Id>)]| -> (Canon, Model) {
        let mut n = m.clone();
        let mut c: Canon = vec![];
        for (lane, ids) in rel {
            if ids.is_empty() {
                continue;
            }
            n.pending.get_mut(lane).unwrap().retain(|i| !ids.contains(i));
            n.released.extend(ids.iter().copied());
            c.push((*lane, ids.clone()));
        }
        n.clean();
        c.sort();
        (c, n)
    };
    match kind {
        Kind::StreamTotal | Kind::KeyedTotal => {
            let parts: Vec<Vec<(Lane, Vec<Id>)>> = lanes
                .iter()
                .map(|l| (0..=m.pending[l].len()).map(|k| (*l, m.pending[l][..k].to_vec())).collect())
                .collect();
            for combo in product(&parts) {
                res.push(apply(&combo));
            }
        }
        Kind::StreamNo | Kind::KeyedNo => {
            let parts: Vec<Vec<(Lane, Vec<Id>)>> =
                lanes.iter().map(|l| subsets(&m.pending[l]).into_iter().map(|s| (*l, s)).collect()).collect();
            for combo in product(&parts) {
                res.push(apply(&combo));
            }
        }
        Kind::TlFold => {
            res.push(apply(&[]));
            if let Some(l) = lanes.first() {
                for s in subsets(&m.pending[l]) {
                    if s.is_empty() {
                        continue;
                    }
                    for p in permutations(&s) {
                        res.push(apply(&[(*l, p)]));
                    }
                }
            }
        }
        Kind::TlOrder | Kind::TlKeyedOrder => {
            res.push(apply(&[]));
            for l in &lanes {
                for id in &m.pending[l] {
                    res.push(apply(&[(*l, vec![*id])]));
                }
            }
        }
        Kind::TlPartial | Kind::TlMerge | Kind::TlKeyedMerge => {
            res.push(apply(&[]));
            for l in &lanes {
                res.push(apply(&[(*l, vec![m.pending[l][0]])]));
            }
        }
        Kind::Singleton | Kind::Passthrough | Kind::KeyedSingleton => {
            // per key: None = not in the snapshot yet, Some((id, new?))
            let mut keys: BTreeSet<K> = m.last.keys().copied().collect();
            keys.extend(lanes.iter().map(|l| l.1));
            let mut parts: Vec<Vec<(K, Option<(Id, bool)>)>> = vec![];
            for k in &keys {
                let pend = m.pending.get(&(0, *k)).cloned().unwrap_or_default();
                let mut opts = vec![];
                match kind {
                    Kind::Passthrough => {
                        // always the latest version; nothing to release when nothing arrived
                        if let Some(l) = pend.last() {
                            opts.push((*k, Some((*l, true))));
                        }
                    }
                    _ => {
                        match m.last.get(k) {
                            Some(l) => opts.push((*k, Some((*l, false)))),
                            None if kind == Kind::KeyedSingleton => opts.push((*k, None)),
                            None => {}
                        }
                        for id in &pend {
                            opts.push((*k, Some((*id, true))));
                        }
                    }
                }
                parts.push(opts);
            }
            for combo in product(&parts) {
                let mut n = m.clone();
                let mut c: Canon = vec![];
                for (k, o) in &combo {
                    if let Some((id, new)) = o {
                        if *new {
                            let q = n.pending.get_mut(&(0, *k)).unwrap();
                            let pos = q.iter().position(|p| p == id).unwrap();
                            q.drain(..=pos);
                            n.last.insert(*k, *id);
                            c.push(((0, *k), vec![*id]));
                        } else {
                            c.push(((9, *k), vec![*id]));
                        }
                    }
                }
                n.clean();
                c.sort();
                res.push((c, n));
            }
        }
    }
    if force {
        res.retain(|(c, _)| c.iter().any(|(l, v)| l.0 != 9 && !v.is_empty()));
    }
    // distinct canonical releases only
    let mut seen = BTreeSet::new();
    res.retain(|(c, _)| seen.insert(c.clone()));
    res
}

// ---------------------------------------------------------------------------------------------
// Inline (order observation) hooks.

#[derive(Clone, Copy, PartialEq, Eq, Debug, Hash, PartialOrd, Ord)]
pub enum InlineKind {
    StreamOrder,
    MergeOrdered,
    KeyedStreamOrder,
    PartiallyOrdered,
    KeyedMergeOrdered,
}
pub const ALL_INLINE: [InlineKind; 5] = [
    InlineKind::StreamOrder,
    InlineKind::MergeOrdered,
    InlineKind::KeyedStreamOrder,
    InlineKind::PartiallyOrdered,
    InlineKind::KeyedMergeOrdered,
];

impl InlineKind {
    pub fn name(self) -> &'static str {
        match self {
            InlineKind::StreamOrder => "StreamOrderHook",
            InlineKind::MergeOrdered => "MergeOrderedHook",
            InlineKind::KeyedStreamOrder => "KeyedStreamOrderHook",
            InlineKind::PartiallyOrdered => "PartiallyOrderedStreamHook",
            InlineKind::KeyedMergeOrdered => "KeyedMergeOrderedHook",
        }
    }
    pub fn from_name(s: &str) -> Option<InlineKind> {
        ALL_INLINE.iter().copied().find(|k| k.name() == s)
    }
    pub fn lanes(self) -> Vec<Lane> {
        match self {
            InlineKind::StreamOrder => vec![(0, 0)],
            InlineKind::MergeOrdered => vec![(0, 0), (1, 0)],
            InlineKind::KeyedStreamOrder | InlineKind::PartiallyOrdered => KEYS.iter().map(|k| (0, *k)).collect(),
            InlineKind::KeyedMergeOrdered => vec![(0, KEYS[0]), (0, KEYS[1]), (1, KEYS[0]), (1, KEYS[1])],
        }
    }
}

/// Run one inline hook over the batch `items` (item i has id i+1 and sits on lane items[i]);
/// returns the emitted sequence of (lane, id).
pub fn run_inline(kind: InlineKind, items: &[Lane], driver: &mut bg::driver::object::Borrowed<'_>) -> Result<Vec<(Lane, Id)>, String> {
    let lane_of = |id: Id| items[(id - 1) as usize];
    let side = |s: u8| -> Vec<Id> { items.iter().enumerate().filter(|(_, l)| l.0 == s).map(|(i, _)| i as Id + 1).collect() };
    let side_kv =
        |s: u8| -> Vec<(K, Id)> { items.iter().enumerate().filter(|(_, l)| l.0 == s).map(|(i, l)| (l.1, i as Id + 1)).collect() };
    let mut hook: Box<dyn SimInlineHook>;
    enum Rx {
        Flat(Receiver<Vec<Id>>),
        Kv(Receiver<Vec<(K, Id)>>),
    }
    let mut rx;
    match kind {
        InlineKind::StreamOrder => {
            let (tx, r) = unbounded();
            hook = Box::new(StreamOrderHook::new(Rc::new(RefCell::new(Some(side(0)))), tx, LOC, dbg_id));
            rx = Rx::Flat(r);
        }
        InlineKind::MergeOrdered => {
            let (tx, r) = unbounded();
            hook = Box::new(MergeOrderedHook::new(
                Rc::new(RefCell::new(Some(side(0)))),
                Rc::new(RefCell::new(Some(side(1)))),
                tx,
                LOC,
                dbg_id,
            ));
            rx = Rx::Flat(r);
        }
        InlineKind::KeyedStreamOrder => {
            let (tx, r) = unbounded();
            hook = Box::new(KeyedStreamOrderHook::new(Rc::new(RefCell::new(Some(side_kv(0)))), tx, LOC, dbg_k, dbg_id));
            rx = Rx::Kv(r);
        }
        InlineKind::PartiallyOrdered => {
            let (tx, r) = unbounded();
            hook = Box::new(PartiallyOrderedStreamHook::new(Rc::new(RefCell::new(Some(side_kv(0)))), tx, LOC, dbg_k, dbg_id));
            rx = Rx::Kv(r);
        }
        InlineKind::KeyedMergeOrdered => {
            let (tx, r) = unbounded();
            hook = Box::new(KeyedMergeOrderedHook::new(
                Rc::new(RefCell::new(Some(side_kv(0)))),
                Rc::new(RefCell::new(Some(side_kv(1)))),
                tx,
                LOC,
                dbg_kv,
            ));
            rx = Rx::Kv(r);
        }
    }
    if !hook.pending_decision() {
        return Err("pending_decision() is false although a batch is waiting".into());
    }
    catch(|| {
        hook.autonomous_decision(driver);
        hook.release_decision(None);
    })
    .map_err(|p| format!("inline hook panicked: {p}"))?;
    let msgs: Vec<Vec<Id>> = match &mut rx {
        Rx::Flat(r) => drain_rx(r),
        Rx::Kv(r) => drain_rx(r).into_iter().map(|v| v.into_iter().map(|(_, i)| i).collect()).collect(),
    };
    if msgs.len() != 1 {
        return Err(format!("inline hook sent {} batches for one observed batch", msgs.len()));
    }
    let mut out = vec![];
    for id in &msgs[0] {
        if *id == 0 || *id as usize > items.len() {
            return Err(format!("inline hook emitted unknown item {id}"));
        }
        out.push((lane_of(*id), *id));
    }
    Ok(out)
}

/// Which lanes must keep their internal order in the observed sequence, and whether the
/// interleaving ACROSS lanes is a distinct observation (else only per-lane/per-key order matters).
fn inline_rules(kind: InlineKind) -> (bool /*lane order kept*/, bool /*cross-key order observable*/) {
    match kind {
        InlineKind::StreamOrder => (false, true),
        InlineKind::MergeOrdered => (true, true),
        InlineKind::KeyedStreamOrder => (false, false),
        InlineKind::PartiallyOrdered => (true, true),
        InlineKind::KeyedMergeOrdered => (true, false),
    }
}

/// C36 for an order observation: nothing lost, nothing twice, ordered inputs stay in order.
pub fn judge_inline(kind: InlineKind, items: &[Lane], out: &[(Lane, Id)]) -> Result<(), Problem> {
    let mut ids: Vec<Id> = out.iter().map(|(_, i)| *i).collect();
    ids.sort();
    let all: Vec<Id> = (1..=items.len() as Id).collect();
    if ids != all {
        return problem("lost-or-twice", format!("observed batch {out:?} is not a permutation of the input items {all:?}"));
    }
    if inline_rules(kind).0 {
        for lane in kind.lanes() {
            let seq: Vec<Id> = out.iter().filter(|(l, _)| *l == lane).map(|(_, i)| *i).collect();
            if seq.windows(2).any(|w| w[0] > w[1]) {
                return problem("order-broken", format!("ordered input {lane:?} was observed out of order: {seq:?}"));
            }
        }
    }
    Ok(())
}

/// Canonical observation: the distinct thing a downstream operator can see.
pub fn canon_inline(kind: InlineKind, out: &[(Lane, Id)]) -> Vec<Vec<Id>> {
    if inline_rules(kind).1 {
        vec![out.iter().map(|(_, i)| *i).collect()]
    } else {
        KEYS.iter().map(|k| out.iter().filter(|(l, _)| l.1 == *k).map(|(_, i)| *i).collect()).collect()
    }
}

/// All observations the property promises for this batch.
pub fn legal_inline(kind: InlineKind, items: &[Lane]) -> BTreeSet<Vec<Vec<Id>>> {
    use vf_explore::combi::permutations;
    let all: Vec<(Lane, Id)> = items.iter().enumerate().map(|(i, l)| (*l, i as Id + 1)).collect();
    let mut out = BTreeSet::new();
    for p in permutations(&all) {
        if judge_inline(kind, items, &p).is_ok() {
            out.insert(canon_inline(kind, &p));
        }
    }
    out
}
