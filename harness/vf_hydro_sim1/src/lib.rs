//! Hydro programs simulated by the `vf_hydro_sim1` checker (C36–C38).
#[cfg(stageleft_runtime)]
hydro_lang::setup!();

pub mod progs;
