use hydro_lang::live_collections::stream::{ExactlyOnce, TotalOrder};
use hydro_lang::prelude::*;
use hydro_lang::sim::{SimReceiver, SimSender};

pub fn ordered_batch<'a>(
    node: &Process<'a>,
) -> (SimSender<u32, TotalOrder, ExactlyOnce>, SimReceiver<Vec<u32>, TotalOrder, ExactlyOnce>) {
    let tick = node.tick();
    let (in_send, input) = node.sim_input();
    let out = input
        .batch(&tick, nondet!(/** test */))
        .fold(q!(|| Vec::new()), q!(|acc, v| acc.push(v)))
        .all_ticks()
        .sim_output();
    (in_send, out)
}
