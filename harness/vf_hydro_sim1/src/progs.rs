//! The corpus of small Hydro programs. Every tick output carries the batch / snapshot that was
//! released into that tick, so the checker can see the simulator's decisions from outside.
use hydro_lang::live_collections::sliced::sliced;
use hydro_lang::live_collections::stream::{ExactlyOnce, NoOrder, TotalOrder};
use hydro_lang::prelude::*;
use hydro_lang::properties::manual_proof;
use hydro_lang::sim::{SimClusterReceiver, SimClusterSender, SimReceiver, SimSender};

pub type Tx<T> = SimSender<T, TotalOrder, ExactlyOnce>;
pub type TxU<T> = SimSender<T, NoOrder, ExactlyOnce>;
pub type Rx<T> = SimReceiver<T, TotalOrder, ExactlyOnce>;

/// Totally ordered input, one tick per batch; output = the batch of each tick.
pub fn ordered_batch<'a>(node: &Process<'a>) -> (Tx<u32>, Rx<Vec<u32>>) {
    let tick = node.tick();
    let (tx, input) = node.sim_input();
    let out = input
        .batch(&tick, nondet!(/** released batch is the observation */))
        .fold(q!(|| Vec::new()), q!(|acc, v| acc.push(v)))
        .all_ticks()
        .sim_output();
    (tx, out)
}

/// Unordered input, batch, then an in-tick order observation; output = the observed batch.
pub fn unordered_batch_observed<'a>(node: &Process<'a>) -> (TxU<u32>, Rx<Vec<u32>>) {
    let tick = node.tick();
    let (tx, input) = node.sim_input::<u32, NoOrder, ExactlyOnce>();
    let out = input
        .batch(&tick, nondet!(/** released batch is the observation */))
        .assume_ordering::<TotalOrder>(nondet!(/** observed order is the observation */))
        .fold(q!(|| Vec::new()), q!(|acc, v| acc.push(v)))
        .all_ticks()
        .sim_output();
    (tx, out)
}

/// Keyed, per-key ordered input; output per tick = [(key, that key's batch)] (key order observed).
pub fn keyed_batch<'a>(node: &Process<'a>) -> (Tx<(u32, u32)>, Rx<Vec<(u32, Vec<u32>)>>) {
    let tick = node.tick();
    let (tx, input) = node.sim_input::<(u32, u32), TotalOrder, ExactlyOnce>();
    let out = input
        .into_keyed()
        .batch(&tick, nondet!(/** released batch is the observation */))
        .fold(q!(|| Vec::new()), q!(|acc, v| acc.push(v)))
        .entries()
        .assume_ordering::<TotalOrder>(nondet!(/** key order is irrelevant to the checker */))
        .fold(q!(|| Vec::new()), q!(|acc, kv| acc.push(kv)))
        .all_ticks()
        .sim_output();
    (tx, out)
}

/// Keyed unordered input (per-key NoOrder); output per tick = [(key, observed batch of the key)].
pub fn keyed_batch_unordered<'a>(node: &Process<'a>) -> (TxU<(u32, u32)>, Rx<Vec<(u32, Vec<u32>)>>) {
    let tick = node.tick();
    let (tx, input) = node.sim_input::<(u32, u32), NoOrder, ExactlyOnce>();
    let out = input
        .into_keyed()
        .batch(&tick, nondet!(/** released batch is the observation */))
        .assume_ordering::<TotalOrder>(nondet!(/** observed order is the observation */))
        .fold(q!(|| Vec::new()), q!(|acc, v| acc.push(v)))
        .entries()
        .assume_ordering::<TotalOrder>(nondet!(/** key order is irrelevant to the checker */))
        .fold(q!(|| Vec::new()), q!(|acc, kv| acc.push(kv)))
        .all_ticks()
        .sim_output();
    (tx, out)
}

/// Snapshot of an ordered top-level fold; output per tick = the version (prefix) that was released.
pub fn snapshot_of_fold<'a>(node: &Process<'a>) -> (Tx<u32>, Rx<Vec<u32>>) {
    let tick = node.tick();
    let (tx, input) = node.sim_input();
    let folded = input.fold(q!(|| Vec::new()), q!(|acc, v| acc.push(v)));
    let out = folded.snapshot(&tick, nondet!(/** released version is the observation */)).all_ticks().sim_output();
    (tx, out)
}

/// Snapshot of a keyed ordered fold; output per tick = [(key, version of that key)].
pub fn keyed_snapshot<'a>(node: &Process<'a>) -> (Tx<(u32, u32)>, Rx<Vec<(u32, Vec<u32>)>>) {
    let tick = node.tick();
    let (tx, input) = node.sim_input::<(u32, u32), TotalOrder, ExactlyOnce>();
    let folded = input.into_keyed().fold(q!(|| Vec::new()), q!(|acc, v| acc.push(v)));
    let out = folded
        .snapshot(&tick, nondet!(/** released versions are the observation */))
        .entries()
        .assume_ordering::<TotalOrder>(nondet!(/** key order is irrelevant to the checker */))
        .fold(q!(|| Vec::new()), q!(|acc, kv| acc.push(kv)))
        .all_ticks()
        .sim_output();
    (tx, out)
}

/// Top-level commutative fold over an unordered input (TopLevelFoldHook + passthrough snapshot);
/// output = every snapshot of the (sorted) accumulator.
pub fn toplevel_fold<'a>(node: &Process<'a>) -> (TxU<u32>, Rx<Vec<u32>>) {
    let (tx, input) = node.sim_input::<u32, NoOrder, ExactlyOnce>();
    let folded = input.fold(
        q!(|| Vec::new()),
        q!(
            |acc, v| {
                acc.push(v);
                acc.sort();
            },
            commutative = manual_proof!(/** a sorted vector is a multiset */)
        ),
    );
    let out = sliced! {
        let snapshot = use::snapshot(folded, nondet!(/** released version is the observation */));
        snapshot.into_stream()
    }
    .sim_output();
    (tx, out)
}

/// Same, but the accumulator records the order in which the fold saw its inputs (a fold that is
/// NOT commutative although it claims to be): every input order must be explored.
pub fn toplevel_fold_order<'a>(node: &Process<'a>) -> (TxU<u32>, Rx<Vec<u32>>) {
    let (tx, input) = node.sim_input::<u32, NoOrder, ExactlyOnce>();
    let folded = input.fold(
        q!(|| Vec::new()),
        q!(|acc, v| acc.push(v), commutative = manual_proof!(/** deliberately wrong: order is recorded */)),
    );
    let out = sliced! {
        let snapshot = use::snapshot(folded, nondet!(/** released version is the observation */));
        snapshot.into_stream()
    }
    .sim_output();
    (tx, out)
}

/// Sum of an unordered input folded at top level; output = every snapshot of the sum.
pub fn unordered_sum<'a>(node: &Process<'a>) -> (TxU<u32>, Rx<u32>) {
    let (tx, input) = node.sim_input::<u32, NoOrder, ExactlyOnce>();
    let folded = input.fold(q!(|| 0u32), q!(|acc, v| *acc += v, commutative = manual_proof!(/** addition */)));
    let out = sliced! {
        let snapshot = use::snapshot(folded, nondet!(/** released version is the observation */));
        snapshot.into_stream()
    }
    .sim_output();
    (tx, out)
}

/// One tick fed by two ordered inputs; output per tick = (batch of a, batch of b).
pub fn two_input_tick<'a>(node: &Process<'a>) -> (Tx<u32>, Tx<u32>, Rx<(Vec<u32>, Vec<u32>)>) {
    let tick = node.tick();
    let (tx_a, a) = node.sim_input();
    let (tx_b, b) = node.sim_input();
    let fa = a.batch(&tick, nondet!(/** observation */)).fold(q!(|| Vec::new()), q!(|acc, v| acc.push(v)));
    let fb = b.batch(&tick, nondet!(/** observation */)).fold(q!(|| Vec::new()), q!(|acc, v| acc.push(v)));
    let out = fa.zip(fb).all_ticks().sim_output();
    (tx_a, tx_b, out)
}

/// One tick fed by THREE ordered inputs; output per tick = (batch of a, batch of b, batch of c).
pub fn three_input_tick<'a>(node: &Process<'a>) -> (Tx<u32>, Tx<u32>, Tx<u32>, Rx<((Vec<u32>, Vec<u32>), Vec<u32>)>) {
    let tick = node.tick();
    let (tx_a, a) = node.sim_input();
    let (tx_b, b) = node.sim_input();
    let (tx_c, c) = node.sim_input();
    let fa = a.batch(&tick, nondet!(/** observation */)).fold(q!(|| Vec::new()), q!(|acc, v| acc.push(v)));
    let fb = b.batch(&tick, nondet!(/** observation */)).fold(q!(|| Vec::new()), q!(|acc, v| acc.push(v)));
    let fc = c.batch(&tick, nondet!(/** observation */)).fold(q!(|| Vec::new()), q!(|acc, v| acc.push(v)));
    let out = fa.zip(fb).zip(fc).all_ticks().sim_output();
    (tx_a, tx_b, tx_c, out)
}

/// One tick fed by a batch and by a snapshot of an (ordered) top-level fold over a second input;
/// output per tick = (batch, snapshot version).
pub fn batch_and_snapshot<'a>(node: &Process<'a>) -> (Tx<u32>, Tx<u32>, Rx<(Vec<u32>, Vec<u32>)>) {
    let tick = node.tick();
    let (tx_a, a) = node.sim_input();
    let (tx_s, s) = node.sim_input();
    let folded = s.fold(q!(|| Vec::new()), q!(|acc, v| acc.push(v)));
    let fa = a.batch(&tick, nondet!(/** observation */)).fold(q!(|| Vec::new()), q!(|acc, v| acc.push(v)));
    let snap = folded.snapshot(&tick, nondet!(/** observation */));
    let out = fa.zip(snap).all_ticks().sim_output();
    (tx_a, tx_s, out)
}

/// One tick fed by a batch and by a snapshot of a HOOKED top-level fold (unordered input, so the
/// snapshot goes through the passthrough singleton hook); output per tick = (batch, snapshot).
pub fn batch_and_hooked_fold_snapshot<'a>(node: &Process<'a>) -> (Tx<u32>, TxU<u32>, Rx<(Vec<u32>, Vec<u32>)>) {
    let tick = node.tick();
    let (tx_a, a) = node.sim_input();
    let (tx_s, s) = node.sim_input::<u32, NoOrder, ExactlyOnce>();
    let folded = s.fold(
        q!(|| Vec::new()),
        q!(
            |acc, v| {
                acc.push(v);
                acc.sort();
            },
            commutative = manual_proof!(/** a sorted vector is a multiset */)
        ),
    );
    let fa = a.batch(&tick, nondet!(/** observation */)).fold(q!(|| Vec::new()), q!(|acc, v| acc.push(v)));
    let snap = folded.snapshot(&tick, nondet!(/** observation */));
    let out = fa.zip(snap).all_ticks().sim_output();
    (tx_a, tx_s, out)
}

/// Two ticks: tick A counts its input into a top-level counter; tick B pairs each of its inputs
/// with a snapshot of that counter. Whether B sees A's effect depends on the order of ready ticks.
pub fn two_ticks<'a>(node: &Process<'a>) -> (Tx<u32>, Tx<u32>, Rx<(u32, usize)>) {
    let tick_a = node.tick();
    let tick_b = node.tick();
    let (tx_a, a) = node.sim_input::<u32, TotalOrder, ExactlyOnce>();
    let (tx_b, b) = node.sim_input::<u32, TotalOrder, ExactlyOnce>();
    let counted = a.batch(&tick_a, nondet!(/** tick A */)).all_ticks().count();
    let out = b
        .batch(&tick_b, nondet!(/** tick B */))
        .cross_singleton(counted.snapshot(&tick_b, nondet!(/** tick B reads A's effect */)))
        .all_ticks()
        .sim_output();
    (tx_a, tx_b, out)
}

/// The two-slice counter of the repo's quiescence tests: slice 1 passes the input through, slice 2
/// counts a clone of slice 1's output and reports the count when asked.
pub fn two_slice_counter<'a>(node: &Process<'a>) -> (Tx<u32>, Rx<u32>, Tx<()>, Rx<i32>) {
    let (send_port, input) = node.sim_input();
    let first_slice_out = sliced! {
        let in_batch = use::batch(input, nondet!(/** test */));
        in_batch
    };
    let first_slice_out_cloned = first_slice_out.clone();
    let (send_read_counter, read_counter) = node.sim_input();
    #[allow(unused_mut, reason = "`mut` is consumed by the `sliced!` macro")]
    let second_slice_count_out = sliced! {
        let mut count = use::state(|l| l.singleton(q!(0)));
        let cloned_batch = use::batch(first_slice_out_cloned, nondet!(/** test */));
        let read_counter_batch = use::batch(read_counter, nondet!(/** test */));

        let count_mut = count.by_mut();
        cloned_batch.for_each(q!(|_| {
            *count_mut += 1
        }));

        read_counter_batch.first().into_stream().map(q!(|_| *count_mut))
    };
    (send_port, first_slice_out.sim_output(), send_read_counter, second_slice_count_out.sim_output())
}

/// Top-level order observation of an unordered stream; output = the observed order.
pub fn toplevel_order<'a>(node: &Process<'a>) -> (TxU<u32>, Rx<u32>) {
    let (tx, input) = node.sim_input::<u32, NoOrder, ExactlyOnce>();
    let out = input.assume_ordering::<TotalOrder>(nondet!(/** observed order is the observation */)).sim_output();
    (tx, out)
}

/// A 2-member cluster: unordered per-member input, batched in a tick on every member.
pub fn cluster_batch<'a>(
    cluster: &Cluster<'a, ()>,
) -> (SimClusterSender<u32, NoOrder, ExactlyOnce>, SimClusterReceiver<Vec<u32>, TotalOrder, ExactlyOnce>) {
    let tick = cluster.tick();
    let (tx, input) = cluster.sim_input::<u32, NoOrder, ExactlyOnce>();
    let out = input
        .batch(&tick, nondet!(/** released batch is the observation */))
        .assume_ordering::<TotalOrder>(nondet!(/** observed order is the observation */))
        .fold(q!(|| Vec::new()), q!(|acc, v| acc.push(v)))
        .all_ticks()
        .sim_cluster_output();
    (tx, out)
}

/// Cluster members send to a process over the network (keyed by member id at the receiver, a
/// hash-map keyed hook), the process batches the keyed stream; output per tick = [(member, batch)].
pub fn cluster_to_process<'a>(
    cluster: &Cluster<'a, ()>,
    node: &Process<'a>,
) -> (SimClusterSender<u32, TotalOrder, ExactlyOnce>, Rx<Vec<(u32, Vec<u32>)>>) {
    use hydro_lang::networking::TCP;
    let tick = node.tick();
    let (tx, input) = cluster.sim_input::<u32, TotalOrder, ExactlyOnce>();
    let out = input
        .send(node, TCP.fail_stop().bincode())
        .batch(&tick, nondet!(/** released batch is the observation */))
        .fold(q!(|| Vec::new()), q!(|acc, v| acc.push(v)))
        .entries()
        .map(q!(|(m, v)| (m.get_raw_id(), v)))
        .assume_ordering::<TotalOrder>(nondet!(/** key order is irrelevant to the checker */))
        .fold(q!(|| Vec::new()), q!(|acc, kv| acc.push(kv)))
        .all_ticks()
        .sim_output();
    (tx, out)
}
