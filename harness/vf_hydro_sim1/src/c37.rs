//! C37 — exhaustive simulation covers every distinct schedule.
use std::collections::{BTreeMap, BTreeSet};
use std::ops::ControlFlow;

use bolero::generator::bolero_generator as bg;
use vf_explore::{Chooser, Report, Stats, Value, combi, explore, json, ncpu, par_map};

use crate::corpus;
use crate::hooks::*;
use crate::simrun::Obs;

/// Paths that reached an outcome some other path had already reached (reported only).
static DUPLICATES: std::sync::atomic::AtomicU64 = std::sync::atomic::AtomicU64::new(0);

type ExDriver = bg::driver::object::Object<bg::driver::exhaustive::Driver>;

fn new_exhaustive() -> ExDriver {
    bg::driver::object::Object(bg::driver::exhaustive::Driver::new(&Default::default()))
}

/// Drive `f` the way bolero's exhaustive engine does (`while driver.step().is_continue()`),
/// handing it the repo's exhaustive driver as the simulator would see it.
fn for_each_exhaustive(cap: u64, mut f: impl FnMut(&mut bg::driver::object::Borrowed<'_>)) -> (u64, bool) {
    let mut d = new_exhaustive();
    let mut n = 0u64;
    while let ControlFlow::Continue(()) = d.step() {
        if n >= cap {
            return (n, true);
        }
        n += 1;
        let mut b = bg::driver::object::Borrowed(&mut d);
        f(&mut b);
    }
    (n, false)
}

// ------------------------------------------------------------------------------------------
// (a) hook level

/// The sequence of canonical releases of `ticks` successive decisions (no arrivals in between);
/// stops early when a tick with only this hook could not run.
fn reached_sequence(kind: Kind, init: &[Lane], ticks: usize, force: bool, d: &mut bg::driver::object::Borrowed<'_>) -> Result<Vec<Canon>, String> {
    let mut s = Subject::new(kind);
    let mut next_id: Id = 0;
    s.arrive(init, &mut next_id);
    let mut seq = vec![];
    for _ in 0..ticks {
        if !s.may_decide(force) {
            break;
        }
        let before = s.model.clone();
        let hook = s.live.hook.as_mut().unwrap();
        vf_explore::catch(|| {
            hook.autonomous_decision(d, force);
            hook.release_decision(None);
        })
        .map_err(|p| format!("hook panicked: {p}"))?;
        let (out, _) = s.live.drain();
        let left = s.live.leftover();
        let c = canon(kind, &before, &out);
        // keep the model in step (soundness is C36's business; here we only need the next state)
        if let Err(p) = judge(kind, &mut s.model, &out, &left) {
            return Err(format!("unsound release ({}): {}", p.class, p.text));
        }
        seq.push(c);
    }
    Ok(seq)
}

/// All release sequences the property promises, enumerated from the reference model.
fn expected_sequences(kind: Kind, init: &[Lane], ticks: usize, force: bool) -> BTreeSet<Vec<Canon>> {
    let mut m = Model::default();
    for (i, l) in init.iter().enumerate() {
        m.push(*l, i as Id + 1);
    }
    fn go(kind: Kind, m: &Model, left: usize, force: bool, cur: &mut Vec<Canon>, out: &mut BTreeSet<Vec<Canon>>) {
        if left == 0 {
            out.insert(cur.clone());
            return;
        }
        // can a tick with only this hook run / be forced?
        let can = m.any_pending();
        let runnable = match kind {
            Kind::Singleton => (can || !m.last.is_empty()) && (!force || can),
            Kind::Passthrough => can,
            _ => !force || can,
        };
        let rel = if runnable { legal_releases(kind, m, force) } else { vec![] };
        if rel.is_empty() {
            out.insert(cur.clone());
            return;
        }
        for (c, n) in rel {
            cur.push(c);
            go(kind, &n, left - 1, force, cur, out);
            cur.pop();
        }
    }
    let mut out = BTreeSet::new();
    go(kind, &m, ticks, force, &mut vec![], &mut out);
    out
}

fn hook_case(kind: Kind, init: &[Lane], ticks: usize, force: bool, st: &mut Stats) {
    let expected = expected_sequences(kind, init, ticks, force);
    let mut reached: BTreeMap<Vec<Canon>, u64> = BTreeMap::new();
    let mut failure: Option<String> = None;
    let (paths, capped) = for_each_exhaustive(5_000_000, |d| match reached_sequence(kind, init, ticks, force, d) {
        Ok(seq) => *reached.entry(seq).or_default() += 1,
        Err(e) => failure = Some(e),
    });
    if capped {
        st.cap(format!("hook level: {} {init:?} ticks={ticks} stopped after {paths} paths", kind.name()));
        return;
    }
    st.eval();
    st.transitions += paths;
    st.nontrivial(&(kind, init, ticks, force));
    for s in reached.keys() {
        st.outcome(&(kind, init, s));
    }
    let dup: u64 = reached.values().map(|c| c - 1).sum(); // duplicated explorations: reported, not required absent
    DUPLICATES.fetch_add(dup, std::sync::atomic::Ordering::Relaxed);
    let case = json!({"section": "hooks", "kind": kind.name(), "init": init.iter().map(|(a, b)| vec![*a, *b]).collect::<Vec<_>>(), "ticks": ticks, "force": force});
    if let Some(f) = failure {
        st.violation(format!("C37/hook/{}/failure", kind.name()), format!("{} {init:?}: {f}", kind.name()), case.clone());
    }
    if let Some(miss) = expected.iter().find(|s| !reached.contains_key(*s)) {
        st.violation(
            format!("C37/hook/{}/missing", kind.name()),
            format!(
                "{} over lanes {init:?}, {ticks} tick(s), force={force}: the exhaustive driver explored {paths} paths reaching {} distinct release sequences, but never {miss:?} ({} of {} legal sequences missing)",
                kind.name(),
                reached.len(),
                expected.iter().filter(|s| !reached.contains_key(*s)).count(),
                expected.len()
            ),
            case.clone(),
        );
    }
    if let Some(extra) = reached.keys().find(|s| !expected.contains(*s)) {
        st.violation(
            format!("C37/hook/{}/unexpected", kind.name()),
            format!("{} over lanes {init:?}, {ticks} tick(s), force={force}: reached release sequence {extra:?} is outside the legal decision space", kind.name()),
            case,
        );
    }
    st.sample(|| json!({"hook": kind.name(), "lanes": format!("{init:?}"), "ticks": ticks, "force": force, "paths": paths, "distinct_reached": reached.len(), "expected": expected.len(), "duplicate_paths": dup}));
}

fn inline_case(kind: InlineKind, items: &[Lane], st: &mut Stats) {
    let expected = legal_inline(kind, items);
    let mut reached: BTreeMap<Vec<Vec<Id>>, u64> = BTreeMap::new();
    let mut failure = None;
    let (paths, _) = for_each_exhaustive(5_000_000, |d| match run_inline(kind, items, d) {
        Ok(out) => *reached.entry(canon_inline(kind, &out)).or_default() += 1,
        Err(e) => failure = Some(e),
    });
    st.eval();
    st.transitions += paths;
    st.nontrivial(&(kind, items));
    for s in reached.keys() {
        st.outcome(&(kind, items, s));
    }
    DUPLICATES.fetch_add(reached.values().map(|c| c - 1).sum::<u64>(), std::sync::atomic::Ordering::Relaxed);
    let case = json!({"section": "inline", "kind": kind.name(), "items": items.iter().map(|(a, b)| vec![*a, *b]).collect::<Vec<_>>()});
    if let Some(f) = failure {
        st.violation(format!("C37/inline/{}/failure", kind.name()), format!("{} {items:?}: {f}", kind.name()), case.clone());
    }
    if let Some(miss) = expected.iter().find(|s| !reached.contains_key(*s)) {
        st.violation(
            format!("C37/inline/{}/missing", kind.name()),
            format!("{} over batch lanes {items:?}: observation {miss:?} is never explored ({} of {} reached)", kind.name(), reached.len(), expected.len()),
            case.clone(),
        );
    }
    if let Some(extra) = reached.keys().find(|s| !expected.contains(*s)) {
        st.violation(format!("C37/inline/{}/unexpected", kind.name()), format!("{} over batch lanes {items:?}: observation {extra:?} is not a legal order", kind.name()), case);
    }
}

/// Joint release decisions of a tick with several hooks, through the REAL run_hooks with the
/// repo's exhaustive driver installed as the bolero scope (as `CompiledSim::exhaustive` does).
fn joint_case(states: &[HookState], st: &mut Stats) {
    let mut next_id: Id = 0;
    let mut probe: Vec<Subject> = states.iter().map(|s| build_state(s, &mut next_id)).collect();
    let ready = probe.iter_mut().all(|s| s.live.hook().is_ready());
    let cans: Vec<bool> = probe.iter_mut().map(|s| s.live.hook().can_make_nontrivial_decision()).collect();
    if !ready || !cans.iter().any(|c| *c) {
        return; // SimTick::can_run() is false
    }
    // Expected: run_hooks lets every hook decide freely (trivially or not) and only forces the LAST
    // undecided hook when nothing has been released yet => every combination of per-hook legal
    // decisions except those in which no hook releases anything new.
    let per_hook: Vec<Vec<Canon>> = probe.iter().map(|s| legal_releases(s.live.kind, &s.model, false).into_iter().map(|(c, _)| c).collect()).collect();
    let is_new = |c: &Canon| c.iter().any(|(l, v)| l.0 != 9 && !v.is_empty());
    let mut expected: BTreeSet<Vec<Canon>> = BTreeSet::new();
    let mut combos: Vec<Vec<Canon>> = vec![vec![]];
    for opts in &per_hook {
        combos = combos.iter().flat_map(|c| opts.iter().map(move |o| { let mut t = c.clone(); t.push(o.clone()); t })).collect();
    }
    for c in combos {
        if c.iter().any(is_new) {
            expected.insert(c);
        }
    }
    let mut reached: BTreeMap<Vec<Canon>, u64> = BTreeMap::new();
    let mut failure: Option<String> = None;
    let mut d = Box::new(new_exhaustive());
    let mut paths = 0u64;
    while let ControlFlow::Continue(()) = d.step() {
        paths += 1;
        if paths > 2_000_000 {
            st.cap(format!("joint decisions: vector {:?} stopped after {paths} paths", states.iter().map(|s| s.label()).collect::<Vec<_>>()));
            return;
        }
        let mut next_id: Id = 0;
        let mut subjects: Vec<Subject> = states.iter().map(|s| build_state(s, &mut next_id)).collect();
        let befores: Vec<Model> = subjects.iter().map(|s| s.model.clone()).collect();
        let mut hooks: Vec<Box<dyn hydro_lang::sim::runtime::SimHook>> = subjects.iter_mut().map(|s| s.live.hook.take().unwrap()).collect();
        let (back, res) = bg::any::scope::with(d, || vf_explore::catch(|| hydro_lang::sim::compiled::verif_run_hooks(&mut hooks)));
        d = back;
        if let Err(p) = res {
            failure = Some(format!("run_hooks panicked: {p}"));
            continue;
        }
        let joint: Vec<Canon> = subjects.iter_mut().zip(&befores).map(|(s, b)| canon(s.live.kind, b, &s.live.drain().0)).collect();
        *reached.entry(joint).or_default() += 1;
    }
    st.eval();
    st.transitions += paths;
    st.nontrivial(&states);
    for j in reached.keys() {
        st.outcome(&(states, j));
    }
    DUPLICATES.fetch_add(reached.values().map(|c| c - 1).sum::<u64>(), std::sync::atomic::Ordering::Relaxed);
    let labels: Vec<String> = states.iter().map(|s| s.label()).collect();
    let case = json!({"section": "joint", "hooks": states.iter().map(|s| json!({"kind": s.kind.name(), "prepped": s.prepped, "items": s.items.iter().map(|(a, b)| vec![*a, *b]).collect::<Vec<_>>()})).collect::<Vec<_>>()});
    if let Some(f) = failure {
        st.violation("C37/joint/failure".to_string(), format!("tick with hooks {labels:?}: {f}"), case.clone());
    }
    if let Some(miss) = expected.iter().find(|j| !reached.contains_key(*j)) {
        let missing = expected.iter().filter(|j| !reached.contains_key(*j)).count();
        st.violation(
            format!("C37/joint/missing/{}-hooks", states.len()),
            format!("tick with hooks {labels:?}: run_hooks under the exhaustive driver explored {paths} paths reaching {} joint release decisions, but never {miss:?} (one entry per hook; {missing} of {} legal combinations missing)", reached.len(), expected.len()),
            case.clone(),
        );
    }
    if let Some(extra) = reached.keys().find(|j| !expected.contains(*j)) {
        st.violation(
            format!("C37/joint/unexpected/{}-hooks", states.len()),
            format!("tick with hooks {labels:?}: joint release decision {extra:?} is outside the legal combinations"),
            case,
        );
    }
    st.sample(|| json!({"tick_hooks": labels, "paths": paths, "joint_decisions_reached": reached.len(), "expected": expected.len()}));
}

fn joint_level(thorough: bool) -> Stats {
    let tick_kinds: Vec<Kind> = ALL_KINDS.iter().copied().filter(|k| !k.top_level()).collect();
    let states = hook_states(&tick_kinds, if thorough { 3 } else { 2 });
    let idle_pt = |s: &HookState| s.kind == Kind::Passthrough && s.items.is_empty();
    let triple_total = if thorough { 7 } else { 6 };
    let mut vectors: Vec<Vec<HookState>> = vec![];
    for a in &states {
        for c in &states {
            let v = vec![a.clone(), c.clone()];
            if !v.iter().any(idle_pt) {
                vectors.push(v);
            }
        }
    }
    for a in &states {
        for c in &states {
            for d in &states {
                if a.items.len() + c.items.len() + d.items.len() <= triple_total {
                    let v = vec![a.clone(), c.clone(), d.clone()];
                    if !v.iter().any(idle_pt) {
                        vectors.push(v);
                    }
                }
            }
        }
    }
    let chunk = 128;
    par_map(vectors.len().div_ceil(chunk), ncpu(), |ci| {
        let mut st = Stats::new();
        for v in &vectors[ci * chunk..((ci + 1) * chunk).min(vectors.len())] {
            joint_case(v, &mut st);
        }
        st
    })
}

fn hook_level(thorough: bool) -> Stats {
    let max_items = if thorough { 5 } else { 4 };
    let max_ticks = 3;
    let mut cases: Vec<(Kind, Vec<Lane>, usize, bool)> = vec![];
    for kind in ALL_KINDS {
        let lanes = kind.lanes();
        let max = if lanes.len() > 2 { max_items - 1 } else { max_items };
        for init in combi::sequences_upto(&lanes, max) {
            for ticks in 1..=max_ticks {
                for force in [false, true] {
                    // top-level hooks are one observation each and therefore always forced by the
                    // scheduler; their unforced behaviour is not part of any schedule
                    if kind.top_level() && !force {
                        continue;
                    }
                    cases.push((kind, init.clone(), ticks, force));
                }
            }
        }
    }
    let mut st = par_map(cases.len(), ncpu(), |i| {
        let (kind, init, ticks, force) = &cases[i];
        let mut st = Stats::new();
        hook_case(*kind, init, *ticks, *force, &mut st);
        st
    });
    let mut icases: Vec<(InlineKind, Vec<Lane>)> = vec![];
    for kind in ALL_INLINE {
        let lanes = kind.lanes();
        let max = if lanes.len() > 2 { max_items.min(3) } else { max_items };
        for items in combi::sequences_upto(&lanes, max) {
            icases.push((kind, items));
        }
    }
    st.merge(par_map(icases.len(), ncpu(), |i| {
        let mut st = Stats::new();
        inline_case(icases[i].0, &icases[i].1, &mut st);
        st
    }));
    st
}

// ------------------------------------------------------------------------------------------
// (b) program level: outcome sets known independently

fn ticks1(v: Vec<Vec<u32>>) -> Obs {
    v.into_iter().map(|b| vec![(0, b)]).collect()
}

/// Expected outcome sets, written from the operator semantics.
fn expected_outcomes(name: &str, n: usize) -> BTreeSet<Obs> {
    use combi::{cuts, permutations, subsets};
    let range: Vec<u32> = (1..=n as u32).collect();
    let mut out = BTreeSet::new();
    match name {
        // every composition of the ordered input into non-empty consecutive batches
        "ordered_batch" => {
            for c in cuts(&range) {
                out.insert(ticks1(c));
            }
        }
        // every order of the unordered input, cut into non-empty batches
        "unordered_batch_observed" => {
            for p in permutations(&range) {
                for c in cuts(&p) {
                    out.insert(ticks1(c));
                }
            }
        }
        // versions [], [1], [1,2], ... : any subsequence that ends with the final version
        "snapshot_of_fold" => {
            let versions: Vec<Vec<u32>> = (0..n).map(|k| range[..k].to_vec()).collect();
            for s in subsets(&versions) {
                let mut v = s;
                v.push(range.clone());
                out.insert(ticks1(v));
            }
        }
        // sums of nested subsets: any chain S0 < S1 < ... < full, S0 possibly empty
        "unordered_sum" => {
            let full = (1u32 << n) - 1;
            fn chains(cur: u32, full: u32, acc: &mut Vec<u32>, out: &mut BTreeSet<Obs>) {
                if cur == full {
                    out.insert(acc.iter().map(|s| vec![(0, vec![*s])]).collect());
                    return;
                }
                for next in (cur + 1)..=full {
                    if next & cur == cur {
                        acc.push(next);
                        chains(next, full, acc, out);
                        acc.pop();
                    }
                }
            }
            for start in 0..=full {
                let mut acc = vec![start];
                chains(start, full, &mut acc, &mut out);
            }
        }
        // the fold sees its input in every order, in batches; snapshots may skip versions
        "toplevel_fold_order" => {
            for p in permutations(&range) {
                let versions: Vec<Vec<u32>> = (0..n).map(|k| p[..k].to_vec()).collect();
                for s in subsets(&versions) {
                    let mut v = s;
                    v.push(p.clone());
                    out.insert(ticks1(v));
                }
            }
        }
        // a top-level order observation yields every permutation
        "toplevel_order" => {
            for p in permutations(&range) {
                out.insert(vec![vec![(0, p)]]);
            }
        }
        // every tick takes a prefix of each of the three inputs, not all empty, until all is delivered:
        // in particular the first tick shows every non-empty combination (1,0,0), (0,1,0), ...
        "three_input_tick" => {
            let ins: [Vec<u32>; 3] = [(1..=(n as u32 - 2)).collect(), vec![21], vec![31]];
            fn go(ins: &[Vec<u32>; 3], pos: [usize; 3], acc: &mut Obs, out: &mut BTreeSet<Obs>) {
                if (0..3).all(|i| pos[i] == ins[i].len()) {
                    out.insert(acc.clone());
                    return;
                }
                for ka in 0..=(ins[0].len() - pos[0]) {
                    for kb in 0..=(ins[1].len() - pos[1]) {
                        for kc in 0..=(ins[2].len() - pos[2]) {
                            if ka + kb + kc == 0 {
                                continue;
                            }
                            let k = [ka, kb, kc];
                            acc.push((0..3).map(|i| (i as u32, ins[i][pos[i]..pos[i] + k[i]].to_vec())).collect());
                            go(ins, [pos[0] + ka, pos[1] + kb, pos[2] + kc], acc, out);
                            acc.pop();
                        }
                    }
                }
            }
            go(&ins, [0, 0, 0], &mut vec![], &mut out);
        }
        // tick B sees 0..=|a| of tick A's items counted, depending on which ready tick ran first
        "two_ticks" => {
            for c in 0..n as u32 {
                out.insert(vec![vec![(100, vec![c])]]);
            }
        }
        // after assert_yields_only([1,2]) the second slice may have counted 0, 1 or 2 items
        "two_slice_counter" => {
            for c in 0..=2u32 {
                out.insert(vec![vec![(0, vec![c])]]);
            }
        }
        _ => crate::driver::machinery(&format!("no expected outcome set for {name}")),
    }
    out
}

pub const C37_PROGRAMS: [&str; 9] = [
    "ordered_batch",
    "unordered_batch_observed",
    "snapshot_of_fold",
    "unordered_sum",
    "toplevel_fold_order",
    "toplevel_order",
    "two_ticks",
    "two_slice_counter",
    "three_input_tick",
];
/// Programs without a hand-derived outcome set: the repo's exhaustive search is compared with the
/// harness's own complete DFS over the same decision tree only.
pub const C37_DFS_ONLY: [&str; 5] = ["keyed_batch", "keyed_batch_unordered", "keyed_snapshot", "two_input_tick", "cluster_batch"];

pub fn program_case(name: &str, n: usize, with_expected: bool) -> Stats {
    let mut st = Stats::new();
    let e = corpus::build(name, n);
    // (1) the repo's exhaustive search
    let (instances, observed) = match e.sim.run_exhaustive() {
        Ok(r) => r,
        Err(p) => {
            st.eval();
            st.violation(format!("C37/prog/{name}/exhaustive-failed"), format!("program {name}: exhaustive() failed: {p}"), json!({"section": "programs", "program": name, "n": n}));
            return st;
        }
    };
    let mut reached: BTreeMap<Obs, u64> = BTreeMap::new();
    for o in observed {
        *reached.entry(o).or_default() += 1;
    }
    // (2) the harness's own DFS over every decision vector of the same program
    let mut dfs: BTreeMap<Obs, Vec<usize>> = BTreeMap::new();
    let es = explore(None, 400_000, |ch| {
        let run = e.sim.run_driver(ch, false, true);
        if let Some(o) = run.obs {
            dfs.entry(o).or_insert_with(|| ch.choices());
        }
    });
    if es.capped {
        st.cap(format!("program {name}: own DFS stopped after {} executions", es.executions));
    }
    st.eval();
    st.transitions += instances as u64 + es.executions;
    st.nontrivial(&(name, n));
    for o in reached.keys() {
        st.outcome(&(name, o));
    }
    DUPLICATES.fetch_add(reached.values().map(|c| c - 1).sum::<u64>(), std::sync::atomic::Ordering::Relaxed);
    println!("  program {name} (n={n}): exhaustive() ran {instances} instances -> {} distinct outcomes; own DFS {} executions -> {} distinct outcomes", reached.len(), es.executions, dfs.len());
    let case = |extra: Value| json!({"section": "programs", "program": name, "n": n, "detail": extra});
    if !es.capped
        && let Some((o, choices)) = dfs.iter().find(|(o, _)| !reached.contains_key(*o))
    {
        st.violation(
            format!("C37/prog/{name}/missing-vs-dfs"),
            format!("program {name} ({}): outcome {o:?} is produced by decision vector {choices:?} but exhaustive() ({instances} instances) never reached it", e.inputs),
            case(json!({"missing_outcome": format!("{o:?}"), "choices": choices})),
        );
    }
    if let Some(o) = reached.keys().find(|o| !es.capped && !dfs.contains_key(*o)) {
        st.violation(
            format!("C37/prog/{name}/unexpected-vs-dfs"),
            format!("program {name}: exhaustive() produced outcome {o:?} that no decision vector of the harness's DFS produces"),
            case(json!({"outcome": format!("{o:?}")})),
        );
    }
    if with_expected {
        let expected = expected_outcomes(name, n);
        if let Some(o) = expected.iter().find(|o| !reached.contains_key(*o)) {
            let missing = expected.iter().filter(|o| !reached.contains_key(*o)).count();
            st.violation(
                format!("C37/prog/{name}/missing"),
                format!("program {name} ({}): exhaustive() ran {instances} instances, {} distinct outcomes, but never reached outcome {o:?} ({missing} of {} expected outcomes missing)", e.inputs, reached.len(), expected.len()),
                case(json!({"missing_outcome": format!("{o:?}"), "choices": dfs.get(o)})),
            );
        }
        if let Some(o) = reached.keys().find(|o| !expected.contains(*o)) {
            st.violation(
                format!("C37/prog/{name}/unexpected"),
                format!("program {name} ({}): exhaustive() reached outcome {o:?} outside the independently derived outcome set ({} expected)", e.inputs, expected.len()),
                case(json!({"outcome": format!("{o:?}")})),
            );
        }
        st.sample(|| json!({"program": name, "inputs": e.inputs, "instances": instances, "distinct_outcomes": reached.len(), "expected_outcomes": expected.len(), "own_dfs_executions": es.executions}));
    } else {
        st.sample(|| json!({"program": name, "inputs": e.inputs, "instances": instances, "distinct_outcomes": reached.len(), "own_dfs_executions": es.executions, "own_dfs_outcomes": dfs.len()}));
    }
    st
}

fn prog_n(name: &str, thorough: bool) -> usize {
    match (name, thorough) {
        ("two_slice_counter", _) => 2,
        ("three_input_tick", false) => 3,
        ("three_input_tick", true) => 4,
        ("toplevel_fold_order", true) | ("unordered_batch_observed", true) | ("unordered_sum", true) => 3,
        ("toplevel_fold_order", false) | ("unordered_sum", false) => 3,
        (_, true) => 4,
        (_, false) => 3,
    }
}

pub fn run(rep: &mut Report) {
    let thorough = rep.thorough();
    rep.rule = "hook level: one case = (hook kind, initial queue, number of ticks, force flag); the SET of canonical release sequences reached by the repo's exhaustive bolero driver is compared with the set enumerated from the reference model. \
                joint level: one case = an ordered vector of 2-3 tick-input hook states accepted by SimTick::can_run; the set of joint release decisions reached through the real run_hooks is compared with the product of the hooks' legal decisions minus the combinations releasing nothing new. \
                program level: one case = a program + input; the set of observations over all instances of flow.sim().exhaustive()."
        .into();
    rep.explanation = "bolero's exhaustive::Driver is stepped exactly as its engine does and feeds the real hooks; reached release-sequence sets must equal the independently enumerated legal sets \
                       (all prefix sizes / all subsets up to in-batch order / all snapshot versions / all observation orders). Programs with known outcome sets run under the repo's exhaustive(); \
                       additionally every program's outcome set is compared with the harness's own DFS over all decision vectors (H3). Duplicate explorations are counted (traces) but not required absent."
        .into();
    rep.assume("a release inside an unordered batch is identified up to in-batch order (what the min_index pruning claims is redundant); TopLevelFoldHook batches keep their order (the fold observes it)");
    rep.assume("trusted base: reference enumeration `legal_releases` / `expected_outcomes` written from the operator semantics");
    rep.bound("hook_queue_items", if thorough { 5 } else { 4 });
    rep.bound("hook_ticks", 3);
    rep.bound("keys", 2);
    let t = std::time::Instant::now();
    let s = hook_level(thorough);
    println!("  hook level: {} cases, {} driver paths, {} duplicate paths, {:.1}s", s.evaluations, s.transitions, DUPLICATES.load(std::sync::atomic::Ordering::Relaxed), t.elapsed().as_secs_f64());
    rep.bound("hook_level_duplicate_paths_reported", DUPLICATES.load(std::sync::atomic::Ordering::Relaxed));
    rep.section("hook_level", s);
    let t = std::time::Instant::now();
    let s = joint_level(thorough);
    println!("  joint decisions through run_hooks: {} ticks (vectors of 2-3 hooks), {} driver paths, {:.1}s", s.evaluations, s.transitions, t.elapsed().as_secs_f64());
    rep.section("joint_run_hooks", s);
    rep.bound("joint_hooks_per_tick", 3);
    rep.bound("joint_queue_items_per_hook", if thorough { 3 } else { 2 });
    rep.bound("joint_total_items_triples", if thorough { 7 } else { 6 });
    let t = std::time::Instant::now();
    let mut names: Vec<(&str, bool)> = C37_PROGRAMS.iter().map(|n| (*n, true)).collect();
    names.extend(C37_DFS_ONLY.iter().map(|n| (*n, false)));
    let specs: Vec<Value> = names.iter().map(|(n, w)| json!({"program": n, "n": prog_n(n, thorough), "with_expected": w})).collect();
    let (mut s, lines) = if crate::jobs::skip_programs() { (Stats::new(), vec![]) } else { crate::jobs::run_programs("c37prog", &specs, "C37/prog") };
    if crate::jobs::skip_programs() {
        s.cap("program level skipped on request (VF_SIM1_SKIP_PROGRAMS)");
    }
    for l in lines {
        println!("{l}");
    }
    println!("  program level: {} programs, {:.1}s", s.evaluations, t.elapsed().as_secs_f64());
    rep.section("program_level", s);
}

pub fn replay(case: &Value) -> bool {
    let mut st = Stats::new();
    match case["section"].as_str().unwrap_or("") {
        "hooks" => {
            let kind = Kind::from_name(case["kind"].as_str().unwrap()).unwrap();
            let init: Vec<Lane> = case["init"].as_array().unwrap().iter().map(|p| (p[0].as_u64().unwrap() as u8, p[1].as_u64().unwrap() as u8)).collect();
            hook_case(kind, &init, case["ticks"].as_u64().unwrap() as usize, case["force"].as_bool().unwrap(), &mut st);
        }
        "inline" => {
            let kind = InlineKind::from_name(case["kind"].as_str().unwrap()).unwrap();
            let items: Vec<Lane> = case["items"].as_array().unwrap().iter().map(|p| (p[0].as_u64().unwrap() as u8, p[1].as_u64().unwrap() as u8)).collect();
            inline_case(kind, &items, &mut st);
        }
        "joint" => {
            let states: Vec<HookState> = case["hooks"]
                .as_array()
                .unwrap()
                .iter()
                .map(|h| HookState {
                    kind: Kind::from_name(h["kind"].as_str().unwrap()).unwrap(),
                    prepped: h["prepped"].as_bool().unwrap(),
                    items: h["items"].as_array().unwrap().iter().map(|p| (p[0].as_u64().unwrap() as u8, p[1].as_u64().unwrap() as u8)).collect(),
                })
                .collect();
            joint_case(&states, &mut st);
        }
        "programs" => {
            let name = case["program"].as_str().unwrap();
            let with_expected = C37_PROGRAMS.contains(&name);
            st = program_case(name, case["n"].as_u64().unwrap() as usize, with_expected);
            if let Some(ch) = case["detail"]["choices"].as_array() {
                let choices: Vec<usize> = ch.iter().map(|c| c.as_u64().unwrap() as usize).collect();
                let e = corpus::build(name, case["n"].as_u64().unwrap() as usize);
                let mut c = Chooser::replay(choices.clone());
                let run = e.sim.run_driver(&mut c, false, true);
                println!("replay: decision vector {choices:?} produces {:?} ({:?})", run.obs, run.verdict);
            }
        }
        "crash" => return crate::jobs::replay_crash(case),
        other => {
            println!("unknown replay section {other}");
            return false;
        }
    }
    for v in &st.violations {
        println!("replay: VIOLATION [{}] {}", v.key, v.what);
    }
    if st.violations.is_empty() {
        println!("replay: reached set equals the expected set");
    }
    !st.violations.is_empty()
}
