//! The corpus: each entry = a compiled program from `vf_hydro_sim1::progs`, the inputs the test
//! body sends, and a description of what every output lane carries (used by the C36 oracle).
use hydro_lang::prelude::*;
use vf_explore::Chooser;
use vf_hydro_sim1::progs;

use crate::simrun::{Obs, Run, Sim, TickOut, Verdict};

#[derive(Clone, Debug)]
pub enum LaneSpec {
    /// batches of a totally ordered input: must partition it in order
    Ordered(Vec<u32>),
    /// batches of an unordered input: must partition it as a multiset
    Unordered(Vec<u32>),
    /// snapshots of an ordered fold collecting its input: each version is a prefix
    SnapPrefix(Vec<u32>),
    /// snapshots of a commutative fold collecting its input (sorted): each version is a subset
    SnapSubset(Vec<u32>),
    /// not judged by the C36 oracle
    Opaque,
}

pub trait DynSim {
    fn name(&self) -> &'static str;
    fn run_driver(&self, ch: &mut Chooser, costly: bool, exhaustive_flag: bool) -> Run;
    fn run_tolerant(&self, prefix: Vec<usize>, exhaustive_flag: bool) -> (Run, Option<String>);
    fn run_exhaustive(&self) -> Result<(usize, Vec<Obs>), String>;
    fn run_bytes(&self, bytes: Vec<u8>) -> (String, Verdict, Option<Obs>);
}

impl<P, B: AsyncFn(&P) -> Obs> DynSim for Sim<P, B> {
    fn name(&self) -> &'static str {
        self.name
    }
    fn run_driver(&self, ch: &mut Chooser, costly: bool, exhaustive_flag: bool) -> Run {
        Sim::run_driver(self, ch, costly, exhaustive_flag)
    }
    fn run_tolerant(&self, prefix: Vec<usize>, exhaustive_flag: bool) -> (Run, Option<String>) {
        Sim::run_tolerant(self, prefix, exhaustive_flag)
    }
    fn run_exhaustive(&self) -> Result<(usize, Vec<Obs>), String> {
        Sim::run_exhaustive(self)
    }
    fn run_bytes(&self, bytes: Vec<u8>) -> (String, Verdict, Option<Obs>) {
        Sim::run_bytes(self, bytes)
    }
}

pub struct Entry {
    pub sim: Box<dyn DynSim>,
    pub lanes: Vec<(u32, LaneSpec)>,
    /// the inputs, for evidence / replay files
    pub inputs: String,
}

impl Entry {
    pub fn run_prefix(&self, prefix: Vec<usize>, exhaustive_flag: bool) -> Run {
        let mut ch = Chooser::replay(prefix);
        self.sim.run_driver(&mut ch, true, exhaustive_flag)
    }
}

pub const KEYED_INPUT: [(u32, u32); 4] = [(1, 1), (1, 2), (2, 3), (2, 4)];

fn keyed_lanes(n: usize, f: impl Fn(Vec<u32>) -> LaneSpec) -> Vec<(u32, LaneSpec)> {
    let inp = &KEYED_INPUT[..n];
    let mut keys: Vec<u32> = inp.iter().map(|(k, _)| *k).collect();
    keys.dedup();
    keys.into_iter().map(|k| (k, f(inp.iter().filter(|(kk, _)| *kk == k).map(|(_, v)| *v).collect()))).collect()
}

fn sorted_tick(mut t: TickOut) -> TickOut {
    t.sort();
    t
}

pub const C36_PROGRAMS: [&str; 13] = [
    "ordered_batch",
    "unordered_batch_observed",
    "keyed_batch",
    "keyed_batch_unordered",
    "snapshot_of_fold",
    "keyed_snapshot",
    "toplevel_fold",
    "two_input_tick",
    "three_input_tick",
    "batch_and_snapshot",
    "batch_and_hooked_fold_snapshot",
    "cluster_batch",
    "cluster_to_process",
];

/// Build + compile one corpus program. `n` scales the input (number of items on the main input).
pub fn build(name: &str, n: usize) -> Entry {
    // building the flow / compiling the simulator dylib is machinery, not a verdict
    match vf_explore::catch(|| build_inner(name, n)) {
        Ok(e) => e,
        Err(p) => crate::driver::machinery(&format!("building / compiling corpus program {name} failed: {p}")),
    }
}

fn build_inner(name: &str, n: usize) -> Entry {
    let mut flow = FlowBuilder::new();
    let range: Vec<u32> = (1..=n as u32).collect();
    match name {
        "ordered_batch" => {
            let node = flow.process::<()>();
            let ports = progs::ordered_batch(&node);
            let input = range.clone();
            let sim = Sim {
                name: "ordered_batch",
                compiled: flow.sim().compiled(),
                ports,
                body: async move |p: &(progs::Tx<u32>, progs::Rx<Vec<u32>>)| -> Obs {
                    p.0.send_many(input.clone());
                    let all: Vec<Vec<u32>> = p.1.collect().await;
                    all.into_iter().map(|b| vec![(0, b)]).collect()
                },
            };
            Entry { sim: Box::new(sim), lanes: vec![(0, LaneSpec::Ordered(range.clone()))], inputs: format!("send_many({range:?})") }
        }
        "unordered_batch_observed" => {
            let node = flow.process::<()>();
            let ports = progs::unordered_batch_observed(&node);
            let input = range.clone();
            let sim = Sim {
                name: "unordered_batch_observed",
                compiled: flow.sim().compiled(),
                ports,
                body: async move |p: &(progs::TxU<u32>, progs::Rx<Vec<u32>>)| -> Obs {
                    p.0.send_many_unordered(input.clone());
                    let all: Vec<Vec<u32>> = p.1.collect().await;
                    all.into_iter().map(|b| vec![(0, b)]).collect()
                },
            };
            Entry {
                sim: Box::new(sim),
                lanes: vec![(0, LaneSpec::Unordered(range.clone()))],
                inputs: format!("send_many_unordered({range:?})"),
            }
        }
        "keyed_batch" | "keyed_snapshot" => {
            let node = flow.process::<()>();
            let snapshot = name == "keyed_snapshot";
            let ports = if snapshot { progs::keyed_snapshot(&node) } else { progs::keyed_batch(&node) };
            let input = KEYED_INPUT[..n].to_vec();
            let sim = Sim {
                name: if snapshot { "keyed_snapshot" } else { "keyed_batch" },
                compiled: flow.sim().compiled(),
                ports,
                body: async move |p: &(progs::Tx<(u32, u32)>, progs::Rx<Vec<(u32, Vec<u32>)>>)| -> Obs {
                    p.0.send_many(input.clone());
                    let all: Vec<Vec<(u32, Vec<u32>)>> = p.1.collect().await;
                    all.into_iter().map(sorted_tick).collect()
                },
            };
            Entry {
                sim: Box::new(sim),
                lanes: keyed_lanes(n, if snapshot { LaneSpec::SnapPrefix } else { LaneSpec::Ordered }),
                inputs: format!("send_many({:?})", &KEYED_INPUT[..n]),
            }
        }
        "keyed_batch_unordered" => {
            let node = flow.process::<()>();
            let ports = progs::keyed_batch_unordered(&node);
            let input = KEYED_INPUT[..n].to_vec();
            let sim = Sim {
                name: "keyed_batch_unordered",
                compiled: flow.sim().compiled(),
                ports,
                body: async move |p: &(progs::TxU<(u32, u32)>, progs::Rx<Vec<(u32, Vec<u32>)>>)| -> Obs {
                    p.0.send_many_unordered(input.clone());
                    let all: Vec<Vec<(u32, Vec<u32>)>> = p.1.collect().await;
                    all.into_iter().map(sorted_tick).collect()
                },
            };
            Entry {
                sim: Box::new(sim),
                lanes: keyed_lanes(n, LaneSpec::Unordered),
                inputs: format!("send_many_unordered({:?})", &KEYED_INPUT[..n]),
            }
        }
        "snapshot_of_fold" => {
            let node = flow.process::<()>();
            let ports = progs::snapshot_of_fold(&node);
            let input = range.clone();
            let sim = Sim {
                name: "snapshot_of_fold",
                compiled: flow.sim().compiled(),
                ports,
                body: async move |p: &(progs::Tx<u32>, progs::Rx<Vec<u32>>)| -> Obs {
                    p.0.send_many(input.clone());
                    let all: Vec<Vec<u32>> = p.1.collect().await;
                    all.into_iter().map(|b| vec![(0, b)]).collect()
                },
            };
            Entry { sim: Box::new(sim), lanes: vec![(0, LaneSpec::SnapPrefix(range.clone()))], inputs: format!("send_many({range:?})") }
        }
        "toplevel_fold" | "toplevel_fold_order" => {
            let node = flow.process::<()>();
            let order = name == "toplevel_fold_order";
            let ports = if order { progs::toplevel_fold_order(&node) } else { progs::toplevel_fold(&node) };
            let input = range.clone();
            let sim = Sim {
                name: if order { "toplevel_fold_order" } else { "toplevel_fold" },
                compiled: flow.sim().compiled(),
                ports,
                body: async move |p: &(progs::TxU<u32>, progs::Rx<Vec<u32>>)| -> Obs {
                    p.0.send_many_unordered(input.clone());
                    let all: Vec<Vec<u32>> = p.1.collect().await;
                    all.into_iter().map(|b| vec![(0, b)]).collect()
                },
            };
            Entry {
                sim: Box::new(sim),
                lanes: vec![(0, if order { LaneSpec::Opaque } else { LaneSpec::SnapSubset(range.clone()) })],
                inputs: format!("send_many_unordered({range:?})"),
            }
        }
        "unordered_sum" => {
            let node = flow.process::<()>();
            let ports = progs::unordered_sum(&node);
            let input: Vec<u32> = (0..n as u32).map(|i| 1 << i).collect();
            let inputs = format!("send_many_unordered({input:?})");
            let sim = Sim {
                name: "unordered_sum",
                compiled: flow.sim().compiled(),
                ports,
                body: async move |p: &(progs::TxU<u32>, progs::Rx<u32>)| -> Obs {
                    p.0.send_many_unordered(input.clone());
                    let all: Vec<u32> = p.1.collect().await;
                    all.into_iter().map(|b| vec![(0, vec![b])]).collect()
                },
            };
            Entry { sim: Box::new(sim), lanes: vec![(0, LaneSpec::Opaque)], inputs }
        }
        "toplevel_order" => {
            let node = flow.process::<()>();
            let ports = progs::toplevel_order(&node);
            let input = range.clone();
            let sim = Sim {
                name: "toplevel_order",
                compiled: flow.sim().compiled(),
                ports,
                body: async move |p: &(progs::TxU<u32>, progs::Rx<u32>)| -> Obs {
                    p.0.send_many_unordered(input.clone());
                    let all: Vec<u32> = p.1.collect().await;
                    vec![vec![(0, all)]]
                },
            };
            Entry { sim: Box::new(sim), lanes: vec![(0, LaneSpec::Opaque)], inputs: format!("send_many_unordered({range:?})") }
        }
        "two_input_tick" | "batch_and_snapshot" => {
            let node = flow.process::<()>();
            let snap = name == "batch_and_snapshot";
            let ports = if snap { progs::batch_and_snapshot(&node) } else { progs::two_input_tick(&node) };
            let a: Vec<u32> = (1..=2).collect();
            let b: Vec<u32> = (11..(11 + n as u32 - 1)).collect();
            let inputs = format!("a.send_many({a:?}); b.send_many({b:?})");
            let lanes = vec![(0, LaneSpec::Ordered(a.clone())), (1, if snap { LaneSpec::SnapPrefix(b.clone()) } else { LaneSpec::Ordered(b.clone()) })];
            let sim = Sim {
                name: if snap { "batch_and_snapshot" } else { "two_input_tick" },
                compiled: flow.sim().compiled(),
                ports,
                body: async move |p: &(progs::Tx<u32>, progs::Tx<u32>, progs::Rx<(Vec<u32>, Vec<u32>)>)| -> Obs {
                    p.0.send_many(a.clone());
                    p.1.send_many(b.clone());
                    let all: Vec<(Vec<u32>, Vec<u32>)> = p.2.collect().await;
                    all.into_iter().map(|(x, y)| vec![(0, x), (1, y)]).collect()
                },
            };
            Entry { sim: Box::new(sim), lanes, inputs }
        }
        "three_input_tick" => {
            // n = total number of items: a gets n-2 of them (1,2,..), b = [21], c = [31]
            let node = flow.process::<()>();
            let ports = progs::three_input_tick(&node);
            let a: Vec<u32> = (1..=(n as u32 - 2)).collect();
            let (b, c) = (vec![21u32], vec![31u32]);
            let inputs = format!("a.send_many({a:?}); b.send_many({b:?}); c.send_many({c:?})");
            let lanes = vec![(0, LaneSpec::Ordered(a.clone())), (1, LaneSpec::Ordered(b.clone())), (2, LaneSpec::Ordered(c.clone()))];
            let sim = Sim {
                name: "three_input_tick",
                compiled: flow.sim().compiled(),
                ports,
                body: async move |p: &(progs::Tx<u32>, progs::Tx<u32>, progs::Tx<u32>, progs::Rx<((Vec<u32>, Vec<u32>), Vec<u32>)>)| -> Obs {
                    p.0.send_many(a.clone());
                    p.1.send_many(b.clone());
                    p.2.send_many(c.clone());
                    let all: Vec<((Vec<u32>, Vec<u32>), Vec<u32>)> = p.3.collect().await;
                    all.into_iter().map(|((x, y), z)| vec![(0, x), (1, y), (2, z)]).collect()
                },
            };
            Entry { sim: Box::new(sim), lanes, inputs }
        }
        "batch_and_hooked_fold_snapshot" => {
            let node = flow.process::<()>();
            let ports = progs::batch_and_hooked_fold_snapshot(&node);
            let a: Vec<u32> = (1..=2).collect();
            let b: Vec<u32> = (11..(11 + n as u32 - 1)).collect();
            let inputs = format!("a.send_many({a:?}); s.send_many_unordered({b:?})");
            let lanes = vec![(0, LaneSpec::Ordered(a.clone())), (1, LaneSpec::SnapSubset(b.clone()))];
            let sim = Sim {
                name: "batch_and_hooked_fold_snapshot",
                compiled: flow.sim().compiled(),
                ports,
                body: async move |p: &(progs::Tx<u32>, progs::TxU<u32>, progs::Rx<(Vec<u32>, Vec<u32>)>)| -> Obs {
                    p.0.send_many(a.clone());
                    p.1.send_many_unordered(b.clone());
                    let all: Vec<(Vec<u32>, Vec<u32>)> = p.2.collect().await;
                    all.into_iter().map(|(x, y)| vec![(0, x), (1, y)]).collect()
                },
            };
            Entry { sim: Box::new(sim), lanes, inputs }
        }
        "two_ticks" => {
            let node = flow.process::<()>();
            let ports = progs::two_ticks(&node);
            let a: Vec<u32> = (1..n as u32).collect();
            let inputs = format!("a.send_many({a:?}); b.send(100)");
            let sim = Sim {
                name: "two_ticks",
                compiled: flow.sim().compiled(),
                ports,
                body: async move |p: &(progs::Tx<u32>, progs::Tx<u32>, progs::Rx<(u32, usize)>)| -> Obs {
                    p.0.send_many(a.clone());
                    p.1.send(100);
                    let all: Vec<(u32, usize)> = p.2.collect().await;
                    all.into_iter().map(|(x, c)| vec![(x, vec![c as u32])]).collect()
                },
            };
            Entry { sim: Box::new(sim), lanes: vec![(100, LaneSpec::Opaque)], inputs }
        }
        "two_slice_counter" => {
            let node = flow.process::<()>();
            let ports = progs::two_slice_counter(&node);
            let sim = Sim {
                name: "two_slice_counter",
                compiled: flow.sim().compiled(),
                ports,
                body: async |p: &(progs::Tx<u32>, progs::Rx<u32>, progs::Tx<()>, progs::Rx<i32>)| -> Obs {
                    p.0.send_many([1u32, 2u32]);
                    p.1.assert_yields_only([1u32, 2u32]).await;
                    p.2.send(());
                    let c = p.3.next().await;
                    vec![vec![(0, vec![c as u32])]]
                },
            };
            Entry {
                sim: Box::new(sim),
                lanes: vec![(0, LaneSpec::Opaque)],
                inputs: "send_many([1,2]); assert_yields_only([1,2]); read.send(()); read_out.next()".into(),
            }
        }
        "cluster_batch" => {
            let cluster = flow.cluster::<()>();
            let ports = progs::cluster_batch(&cluster);
            let input: Vec<(u32, u32)> = KEYED_INPUT[..n].iter().map(|(k, v)| (k - 1, *v)).collect();
            let inputs = format!("2 members; send_many_unordered({input:?})");
            let lanes = keyed_lanes(n, LaneSpec::Unordered).into_iter().map(|(k, l)| (k - 1, l)).collect();
            let sim = Sim {
                name: "cluster_batch",
                compiled: flow.sim().with_cluster_size(&cluster, 2).compiled(),
                ports,
                body: async move |p: &(
                    hydro_lang::sim::SimClusterSender<u32, hydro_lang::live_collections::stream::NoOrder, hydro_lang::live_collections::stream::ExactlyOnce>,
                    hydro_lang::sim::SimClusterReceiver<Vec<u32>, hydro_lang::live_collections::stream::TotalOrder, hydro_lang::live_collections::stream::ExactlyOnce>,
                )|
                            -> Obs {
                    p.0.send_many_unordered(input.clone());
                    let mut obs: Obs = vec![];
                    for m in 0..2u32 {
                        let all: Vec<Vec<u32>> = p.1.collect(m).await;
                        obs.extend(all.into_iter().map(|b| vec![(m, b)]));
                    }
                    obs
                },
            };
            Entry { sim: Box::new(sim), lanes, inputs }
        }
        "cluster_to_process" => {
            let cluster = flow.cluster::<()>();
            let node = flow.process::<()>();
            let ports = progs::cluster_to_process(&cluster, &node);
            let input: Vec<(u32, u32)> = KEYED_INPUT[..n].iter().map(|(k, v)| (k - 1, *v)).collect();
            let inputs = format!("2 members; send_many({input:?}); members forward to a process");
            let lanes = keyed_lanes(n, LaneSpec::Ordered).into_iter().map(|(k, l)| (k - 1, l)).collect();
            let sim = Sim {
                name: "cluster_to_process",
                compiled: flow.sim().with_cluster_size(&cluster, 2).compiled(),
                ports,
                body: async move |p: &(
                    hydro_lang::sim::SimClusterSender<u32, hydro_lang::live_collections::stream::TotalOrder, hydro_lang::live_collections::stream::ExactlyOnce>,
                    progs::Rx<Vec<(u32, Vec<u32>)>>,
                )|
                            -> Obs {
                    p.0.send_many(input.clone());
                    let all: Vec<Vec<(u32, Vec<u32>)>> = p.1.collect().await;
                    all.into_iter().map(sorted_tick).collect()
                },
            };
            Entry { sim: Box::new(sim), lanes, inputs }
        }
        other => crate::driver::machinery(&format!("unknown corpus program {other}")),
    }
}
