//! Program level: one compiled simulation (`flow.sim().compiled()`) plus a test body, runnable
//! (a) as ONE instance with every decision drawn from the harness's recording driver (hook H3,
//! `verif_run_with_driver`), (b) under the repo's own `exhaustive()` search, (c) as one instance
//! replaying a byte string through the public `fuzz_repro`.
use std::panic::AssertUnwindSafe;
use std::sync::Mutex;

use bolero::generator::bolero_generator as bg;
use hydro_lang::sim::compiled::CompiledSim;
use vf_explore::Chooser;

use crate::driver::RecDriver;

/// Observation type shared by all corpus programs: per tick output, per lane/key, the released
/// items (or the released snapshot version).
pub type TickOut = Vec<(u32, Vec<u32>)>;
pub type Obs = Vec<TickOut>;

#[derive(Clone, Debug, PartialEq, Eq, Hash, PartialOrd, Ord)]
pub enum Verdict {
    /// test body ran to its end
    Ok,
    /// the instance ended itself through bolero's "invalid input" panic (assumption / quiescence fork)
    Discarded,
    /// the instance panicked
    Panic(String),
}

#[derive(Clone, Debug, PartialEq, Eq, Hash)]
pub struct Run {
    /// (alternatives, chosen) per simulator decision — the decision log
    pub decisions: Vec<(usize, usize)>,
    pub verdict: Verdict,
    pub obs: Option<Obs>,
}

pub fn verdict_of(r: std::thread::Result<()>) -> Verdict {
    match r {
        Ok(()) => Verdict::Ok,
        Err(e) => {
            if e.downcast_ref::<bg::any::Error>().is_some() {
                Verdict::Discarded
            } else if let Some(s) = e.downcast_ref::<&str>() {
                Verdict::Panic(s.to_string())
            } else if let Some(s) = e.downcast_ref::<String>() {
                Verdict::Panic(s.clone())
            } else {
                Verdict::Panic("<non-string panic>".into())
            }
        }
    }
}

fn whole<T>(a: &AssertUnwindSafe<T>) -> &T {
    &a.0
}

pub struct Sim<P, B> {
    pub name: &'static str,
    pub compiled: CompiledSim,
    pub ports: P,
    pub body: B,
}

impl<P, B> Sim<P, B>
where
    B: AsyncFn(&P) -> Obs,
{
    /// One instance, decisions = `prefix` then all-default, through the recording driver.
    pub fn run_driver(&self, ch: &mut Chooser, costly: bool, exhaustive_flag: bool) -> Run {
        let inner = std::mem::replace(ch, Chooser::replay(vec![]));
        let mut d = RecDriver::new(inner);
        d.costly = costly;
        let out: Mutex<Option<Obs>> = Mutex::new(None);
        let this = AssertUnwindSafe((self, &out));
        let (d, res) = self.compiled.verif_run_with_driver(Box::new(d), exhaustive_flag, false, async || {
            let (s, out) = *whole(&this);
            let o = (s.body)(&s.ports).await;
            *out.lock().unwrap() = Some(o);
        });
        let decisions = d.log();
        *ch = d.ch;
        Run { decisions, verdict: verdict_of(res), obs: out.into_inner().unwrap() }
    }

    /// One instance replaying `prefix` with a driver that tolerates a changed decision tree;
    /// returns the run and, if the recorded choices no longer fit, how they diverged.
    pub fn run_tolerant(&self, prefix: Vec<usize>, exhaustive_flag: bool) -> (Run, Option<String>) {
        let d = RecDriver::tolerant(prefix);
        let out: Mutex<Option<Obs>> = Mutex::new(None);
        let this = AssertUnwindSafe((self, &out));
        let (d, res) = self.compiled.verif_run_with_driver(Box::new(d), exhaustive_flag, false, async || {
            let (s, out) = *whole(&this);
            let o = (s.body)(&s.ports).await;
            *out.lock().unwrap() = Some(o);
        });
        let decisions = d.log();
        let diverged = d.tol.and_then(|t| t.diverged);
        (Run { decisions, verdict: verdict_of(res), obs: out.into_inner().unwrap() }, diverged)
    }

    pub fn run_prefix(&self, prefix: Vec<usize>, exhaustive_flag: bool) -> Run {
        let mut ch = Chooser::replay(prefix);
        self.run_driver(&mut ch, true, exhaustive_flag)
    }

    /// The repo's exhaustive search; returns (instances, observation of every instance whose body
    /// ran to its end).
    pub fn run_exhaustive(&self) -> Result<(usize, Vec<Obs>), String> {
        let sink: Mutex<Vec<Obs>> = Mutex::new(vec![]);
        let this = AssertUnwindSafe((self, &sink));
        let r = vf_explore::catch(|| {
            self.compiled.exhaustive(async || {
                let (s, sink) = *whole(&this);
                let o = (s.body)(&s.ports).await;
                sink.lock().unwrap().push(o);
            })
        });
        vf_explore::quiet_panics(); // bolero installs its own panic hook
        r.map(|n| (n, sink.into_inner().unwrap()))
    }

    /// One instance replaying `bytes` through the public `fuzz_repro`, with the text decision log.
    pub fn run_bytes(&self, bytes: Vec<u8>) -> (String, Verdict, Option<Obs>) {
        let mut log: Vec<u8> = vec![];
        let out: Mutex<Option<Obs>> = Mutex::new(None);
        let this = AssertUnwindSafe((self, &out));
        let log_ref = &mut log;
        let res = std::panic::catch_unwind(AssertUnwindSafe(|| {
            self.compiled.fuzz_repro(bytes, async |instance| {
                let (s, out) = *whole(&this);
                instance
                    .run_with_scheduler_and_logger(log_ref, async {
                        let o = (s.body)(&s.ports).await;
                        *out.lock().unwrap() = Some(o);
                    })
                    .await;
            })
        }));
        let verdict = match verdict_of(res) {
            Verdict::Panic(m) if m.starts_with("simulation assumption failed while replaying") => Verdict::Discarded,
            v => v,
        };
        (String::from_utf8_lossy(&log).into_owned(), verdict, out.into_inner().unwrap())
    }
}
