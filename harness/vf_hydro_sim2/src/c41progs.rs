//! C41 (simulator-builder part): small well-typed programs that stress what the simulator's
//! builder does differently from the production one — one DFIR graph per tick location, clock
//! unification across atomic regions, hooks at tick inputs. Every program takes `u32` inputs on a
//! process and ends in an unordered `u64` stream, so the checker can wire all of them the same way.
use hydro_lang::live_collections::singleton::SingletonBound;
use hydro_lang::live_collections::sliced::yield_atomic;
use hydro_lang::live_collections::stream::NoOrder;
use hydro_lang::location::{Atomic, Location};
use hydro_lang::prelude::*;

pub struct Node41;
pub struct Peer41;
pub struct Worker41;

pub type P<'a> = Process<'a, Node41>;
pub type In<'a> = Stream<u32, P<'a>, Unbounded>;
pub type Out<'a> = Stream<u64, P<'a>, Unbounded, NoOrder>;

/// One `sliced!` block answering `reads` from an atomically read count.
fn slice_read_atomic<'a, B: SingletonBound>(reads: In<'a>, count: Singleton<usize, Atomic<P<'a>>, B>) -> Out<'a> {
    sliced! {
        let batch = use::batch(reads, nondet!(/** verif */));
        let snap = use::atomic(count, nondet!(/** verif */));
        batch.cross_singleton(snap).map(q!(|(r, c)| r as u64 * 100 + c as u64))
    }
    .weaken_ordering::<NoOrder>()
}

/// One `sliced!` block answering `reads` from an asynchronously snapshotted count.
fn slice_read_snapshot<'a, B: SingletonBound>(reads: In<'a>, count: Singleton<usize, P<'a>, B>) -> Out<'a> {
    sliced! {
        let batch = use::batch(reads, nondet!(/** verif */));
        let snap = use::snapshot(count, nondet!(/** verif */));
        batch.cross_singleton(snap).map(q!(|(r, c)| r as u64 * 100 + c as u64))
    }
    .weaken_ordering::<NoOrder>()
}

fn acks<'a>(s: Stream<u32, P<'a>, Unbounded>) -> Out<'a> {
    s.map(q!(|v| v as u64)).weaken_ordering::<NoOrder>()
}

// ---- one atomic region consumed by 1, 2, 3 ticks ----------------------------------------------

pub fn atomic_count_1<'a>(w: In<'a>, r1: In<'a>) -> Out<'a> {
    let p = w.atomic();
    let c = p.clone().count();
    acks(p.end_atomic()).merge_unordered(slice_read_atomic(r1, c))
}

pub fn atomic_count_2<'a>(w: In<'a>, r1: In<'a>, r2: In<'a>) -> Out<'a> {
    let p = w.atomic();
    let c = p.clone().count();
    acks(p.end_atomic()).merge_unordered(slice_read_atomic(r1, c.clone())).merge_unordered(slice_read_atomic(r2, c))
}

pub fn atomic_count_3<'a>(w: In<'a>, r1: In<'a>, r2: In<'a>, r3: In<'a>) -> Out<'a> {
    let p = w.atomic();
    let c = p.clone().count();
    acks(p.end_atomic())
        .merge_unordered(slice_read_atomic(r1, c.clone()))
        .merge_unordered(slice_read_atomic(r2, c.clone()))
        .merge_unordered(slice_read_atomic(r3, c))
}

/// no `end_atomic` at all: the region is only read
pub fn atomic_count_2_no_ack<'a>(w: In<'a>, r1: In<'a>, r2: In<'a>) -> Out<'a> {
    let c = w.atomic().count();
    slice_read_atomic(r1, c.clone()).merge_unordered(slice_read_atomic(r2, c))
}

/// an atomic fold and an atomic count of the same region, read by different ticks
pub fn atomic_fold_and_count<'a>(w: In<'a>, r1: In<'a>, r2: In<'a>) -> Out<'a> {
    let p = w.atomic();
    let c = p.clone().count();
    let sum = p.clone().fold(q!(|| 0usize), q!(|s: &mut usize, v: u32| *s += v as usize));
    acks(p.end_atomic()).merge_unordered(slice_read_atomic(r1, c)).merge_unordered(slice_read_atomic(r2, sum))
}

/// the atomic STREAM itself batched by one tick
pub fn atomic_stream_1<'a>(w: In<'a>) -> Out<'a> {
    let p = w.atomic();
    let c = p.clone().count();
    sliced! {
        let b = use::atomic(p, nondet!(/** verif */));
        let s = use::atomic(c, nondet!(/** verif */));
        b.cross_singleton(s).map(q!(|(v, c)| v as u64 * 100 + c as u64))
    }
    .weaken_ordering::<NoOrder>()
}

/// the atomic stream batched by two different ticks
pub fn atomic_stream_2<'a>(w: In<'a>) -> Out<'a> {
    let p = w.atomic();
    let o1 = sliced! {
        let b = use::atomic(p.clone(), nondet!(/** verif */));
        b.map(q!(|v| v as u64))
    };
    let o2 = sliced! {
        let b = use::atomic(p, nondet!(/** verif */));
        b.count().into_stream().map(q!(|c| 1000 + c as u64))
    };
    o1.weaken_ordering::<NoOrder>().merge_unordered(o2.weaken_ordering::<NoOrder>())
}

/// atomic stream in one tick, its count in two more ticks
pub fn atomic_stream_and_counts<'a>(w: In<'a>, r1: In<'a>, r2: In<'a>) -> Out<'a> {
    let p = w.atomic();
    let c = p.clone().count();
    let o = sliced! {
        let b = use::atomic(p, nondet!(/** verif */));
        b.map(q!(|v| v as u64))
    };
    o.weaken_ordering::<NoOrder>().merge_unordered(slice_read_atomic(r1, c.clone())).merge_unordered(slice_read_atomic(r2, c))
}

/// two atomic regions read inside one tick
pub fn two_regions_one_tick<'a>(w1: In<'a>, w2: In<'a>, r: In<'a>) -> Out<'a> {
    let c1 = w1.atomic().count();
    let c2 = w2.atomic().count();
    sliced! {
        let batch = use::batch(r, nondet!(/** verif */));
        let s1 = use::atomic(c1, nondet!(/** verif */));
        let s2 = use::atomic(c2, nondet!(/** verif */));
        batch.cross_singleton(s1.zip(s2)).map(q!(|(r, (a, b))| r as u64 * 100 + a as u64 * 10 + b as u64))
    }
    .weaken_ordering::<NoOrder>()
}

/// two atomic regions, each read by two ticks, one tick reading both
pub fn two_regions_three_ticks<'a>(w1: In<'a>, w2: In<'a>, r1: In<'a>, r2: In<'a>, r3: In<'a>) -> Out<'a> {
    let c1 = w1.atomic().count();
    let c2 = w2.atomic().count();
    let both = sliced! {
        let batch = use::batch(r3, nondet!(/** verif */));
        let s1 = use::atomic(c1.clone(), nondet!(/** verif */));
        let s2 = use::atomic(c2.clone(), nondet!(/** verif */));
        batch.cross_singleton(s1.zip(s2)).map(q!(|(r, (a, b))| r as u64 * 100 + a as u64 * 10 + b as u64))
    };
    both.weaken_ordering::<NoOrder>().merge_unordered(slice_read_atomic(r1, c1)).merge_unordered(slice_read_atomic(r2, c2))
}

/// the counter shape with slice-local state next to the atomic read
pub fn atomic_count_state<'a>(w: In<'a>, r: In<'a>) -> Out<'a> {
    let p = w.atomic();
    let c = p.clone().count();
    let o = sliced! {
        let batch = use::batch(r, nondet!(/** verif */));
        let snap = use::atomic(c, nondet!(/** verif */));
        let mut prev = use::state(|l| l.singleton(q!(0usize)));
        let out = batch.cross_singleton(snap.clone().zip(prev)).map(q!(|(r, (c, p))| r as u64 * 100 + c as u64 * 10 + p as u64));
        prev = snap;
        out
    };
    acks(p.end_atomic()).merge_unordered(o.weaken_ordering::<NoOrder>())
}

/// keyed atomic region (cf. sim_sliced_atomic_keyed_stream), consumed by two ticks
pub fn atomic_keyed_2<'a>(w: In<'a>) -> Out<'a> {
    let keyed = w.map(q!(|v| (v % 2, v))).into_keyed().atomic();
    let sums = keyed.clone().fold(q!(|| 0u32), q!(|s: &mut u32, v: u32| *s += v));
    let o1 = sliced! {
        let k = use::atomic(keyed, nondet!(/** verif */));
        let s = use::atomic(sums.clone(), nondet!(/** verif */));
        s.join_keyed_stream(k).map(q!(|(sum, v)| sum as u64 * 100 + v as u64)).entries().map(q!(|(_k, x)| x))
    };
    let o2 = sliced! {
        let s = use::atomic(sums, nondet!(/** verif */));
        s.entries().map(q!(|(k, sum)| 10_000 + k as u64 * 100 + sum as u64))
    };
    o1.weaken_ordering::<NoOrder>().merge_unordered(o2.weaken_ordering::<NoOrder>())
}

/// a slice that reads an atomic value of a tick and yields atomically back into it (the shape of
/// paxos's p_ballot_calc), the result also read by a second tick
pub fn yield_atomic_roundtrip<'a>(w: In<'a>, r: In<'a>) -> Out<'a> {
    let tick = w.location().tick();
    let cnt = w.batch(&tick, nondet!(/** verif */)).count();
    let (total, doubled) = sliced! {
        let c = use::atomic(cnt.latest_atomic(), nondet!(/** verif */));
        let mut acc = use::state(|l| l.singleton(q!(0usize)));
        acc = c.zip(acc).map(q!(|(a, b)| a + b));
        let doubled = acc.clone().map(q!(|t| t * 2));
        (yield_atomic(acc.clone()), yield_atomic(doubled))
    };
    let in_tick = total
        .clone()
        .snapshot_atomic(&tick, nondet!(/** verif */))
        .zip(doubled.snapshot_atomic(&tick, nondet!(/** verif */)))
        .map(q!(|(a, b)| a as u64 * 1000 + b as u64))
        .all_ticks();
    in_tick.weaken_ordering::<NoOrder>().merge_unordered(slice_read_atomic(r, total))
}

/// `across_ticks` (tick -> atomic -> same tick), as in paxos's acceptor_p1
pub fn across_ticks_max<'a>(w: In<'a>) -> Out<'a> {
    let tick = w.location().tick();
    let batch = w.batch(&tick, nondet!(/** verif */));
    let max = batch.clone().across_ticks(|s| s.max()).into_singleton();
    batch.cross_singleton(max).map(q!(|(v, m)| v as u64 * 100 + m.unwrap_or(0) as u64)).all_ticks().weaken_ordering::<NoOrder>()
}

/// `across_ticks` state plus a second tick reading the same atomic value
pub fn across_ticks_and_slice<'a>(w: In<'a>, r: In<'a>) -> Out<'a> {
    let tick = w.location().tick();
    let batch = w.batch(&tick, nondet!(/** verif */));
    let atomic_count = batch.clone().all_ticks_atomic().count();
    let in_tick = batch
        .cross_singleton(atomic_count.clone().snapshot_atomic(&tick, nondet!(/** verif */)))
        .map(q!(|(v, c)| v as u64 * 100 + c as u64))
        .all_ticks();
    in_tick.weaken_ordering::<NoOrder>().merge_unordered(slice_read_atomic(r, atomic_count))
}

// ---- slices without atomic regions ---------------------------------------------------------------

pub fn snapshot_shared_2<'a>(w: In<'a>, r1: In<'a>, r2: In<'a>) -> Out<'a> {
    let c = w.count();
    slice_read_snapshot(r1, c.clone()).merge_unordered(slice_read_snapshot(r2, c))
}

pub fn snapshot_shared_3<'a>(w: In<'a>, r1: In<'a>, r2: In<'a>, r3: In<'a>) -> Out<'a> {
    let c = w.count();
    slice_read_snapshot(r1, c.clone()).merge_unordered(slice_read_snapshot(r2, c.clone())).merge_unordered(slice_read_snapshot(r3, c))
}

/// one value read atomically by one tick and asynchronously (after `end_atomic`-side fold) by another
pub fn atomic_and_plain_readers<'a>(w: In<'a>, r1: In<'a>, r2: In<'a>) -> Out<'a> {
    let p = w.atomic();
    let c = p.clone().count();
    let plain = p.end_atomic().count();
    slice_read_atomic(r1, c).merge_unordered(slice_read_snapshot(r2, plain))
}

/// `use::state` and `use::state_null` in one slice
pub fn state_and_state_null<'a>(w: In<'a>) -> Out<'a> {
    sliced! {
        let batch = use::batch(w, nondet!(/** verif */));
        let mut total = use::state(|l| l.singleton(q!(0u64)));
        let mut last = use::state_null::<Optional<u32, Tick<_>, Bounded>>();
        let last_or = last.clone().unwrap_or(last.location().singleton(q!(0u32)));
        total = total.zip(batch.clone().count()).map(q!(|(t, c)| t + c as u64));
        last = batch.last();
        total.clone().zip(last_or).map(q!(|(t, l)| t * 100 + l as u64)).into_stream()
    }
    .weaken_ordering::<NoOrder>()
}

/// a stream carried as slice state (cf. sim_state_source_iter)
pub fn stream_state<'a>(w: In<'a>) -> Out<'a> {
    sliced! {
        let batch = use::batch(w, nondet!(/** verif */));
        let mut items = use::state(|l| l.source_iter(q!([10u32, 20u32])));
        let out = items.clone();
        items = batch;
        out.map(q!(|v| v as u64))
    }
    .weaken_ordering::<NoOrder>()
}

// ---- plain ticks --------------------------------------------------------------------------------------

pub fn tick_count<'a>(w: In<'a>) -> Out<'a> {
    let tick = w.location().tick();
    w.batch(&tick, nondet!(/** verif */)).count().all_ticks().map(q!(|c| c as u64)).weaken_ordering::<NoOrder>()
}

pub fn tick_cycle_sum<'a>(w: In<'a>) -> Out<'a> {
    let tick = w.location().tick();
    let (complete, prev) = tick.cycle_with_initial(tick.singleton(q!(0u64)));
    let cur = w.batch(&tick, nondet!(/** verif */)).count().zip(prev).map(q!(|(c, p)| c as u64 + p));
    complete.complete_next_tick(cur.clone());
    cur.all_ticks().weaken_ordering::<NoOrder>()
}

pub fn tick_cycle_optional<'a>(w: In<'a>) -> Out<'a> {
    let tick = w.location().tick();
    let (complete, prev) = tick.cycle::<Optional<u32, _, _>, _>();
    let batch = w.batch(&tick, nondet!(/** verif */));
    let out = batch.clone().cross_singleton(prev.unwrap_or(tick.singleton(q!(0u32)))).map(q!(|(v, p)| v as u64 * 100 + p as u64));
    complete.complete_next_tick(batch.last());
    out.all_ticks().weaken_ordering::<NoOrder>()
}

pub fn tick_cycle_stream<'a>(w: In<'a>) -> Out<'a> {
    let tick = w.location().tick();
    let (complete, held) = tick.cycle::<Stream<u32, _, _>, _>();
    let batch = w.batch(&tick, nondet!(/** verif */));
    let all = held.chain(batch);
    complete.complete_next_tick(all.clone().filter(q!(|v| v % 2 == 1)));
    all.filter(q!(|v| v % 2 == 0)).all_ticks().map(q!(|v| v as u64)).weaken_ordering::<NoOrder>()
}

pub fn tick_defer<'a>(w: In<'a>) -> Out<'a> {
    let tick = w.location().tick();
    let batch = w.batch(&tick, nondet!(/** verif */));
    batch.clone().defer_tick().chain(batch.map(q!(|v| v + 1000))).all_ticks().map(q!(|v| v as u64)).weaken_ordering::<NoOrder>()
}

pub fn tick_batch_and_snapshot<'a>(w: In<'a>, r: In<'a>) -> Out<'a> {
    let tick = w.location().tick();
    let snap = w.count().snapshot(&tick, nondet!(/** verif */));
    r.batch(&tick, nondet!(/** verif */)).cross_singleton(snap).map(q!(|(r, c)| r as u64 * 100 + c as u64)).all_ticks().weaken_ordering::<NoOrder>()
}

pub fn tick_keyed_fold<'a>(w: In<'a>) -> Out<'a> {
    let tick = w.location().tick();
    w.map(q!(|v| (v % 2, v)))
        .into_keyed()
        .batch(&tick, nondet!(/** verif */))
        .fold(q!(|| 0u32), q!(|s: &mut u32, v: u32| *s += v))
        .entries()
        .map(q!(|(k, s)| k as u64 * 100 + s as u64))
        .all_ticks()
        .weaken_ordering::<NoOrder>()
}

pub fn keyed_snapshot<'a>(w: In<'a>, r: In<'a>) -> Out<'a> {
    let counts = w.map(q!(|v| (v % 2, ()))).into_keyed().value_counts();
    sliced! {
        let batch = use::batch(r.map(q!(|v| (v % 2, v))).into_keyed(), nondet!(/** verif */));
        let snap = use::snapshot(counts, nondet!(/** verif */));
        batch.join_keyed_singleton(snap).entries().map(q!(|(k, (v, c))| k as u64 * 1000 + v as u64 * 10 + c as u64))
    }
    .weaken_ordering::<NoOrder>()
}

/// a tee feeding a tick and a top-level fold
pub fn tee_tick_and_top_level<'a>(w: In<'a>) -> Out<'a> {
    let tick = w.location().tick();
    let total = w.clone().fold(q!(|| 0u64), q!(|s: &mut u64, v: u32| *s += v as u64));
    let snap = total.snapshot(&tick, nondet!(/** verif */));
    w.batch(&tick, nondet!(/** verif */)).cross_singleton(snap).map(q!(|(v, t)| v as u64 * 1000 + t)).all_ticks().weaken_ordering::<NoOrder>()
}

/// two ticks on one process, the second batching the first one's output
pub fn two_ticks_chain<'a>(w: In<'a>) -> Out<'a> {
    let t1 = w.location().tick();
    let t2 = w.location().tick();
    let first = w.batch(&t1, nondet!(/** verif */)).map(q!(|v| v + 1)).all_ticks();
    first.batch(&t2, nondet!(/** verif */)).count().all_ticks().map(q!(|c| c as u64)).weaken_ordering::<NoOrder>()
}

/// forward reference at top level, completed later (no cycle)
pub fn forward_ref_top_level<'a>(w: In<'a>) -> Out<'a> {
    let node = w.location().clone();
    let tick = node.tick();
    let (complete, fwd) = node.forward_ref::<Stream<u32, _, _>>();
    let out = fwd.batch(&tick, nondet!(/** verif */)).count().all_ticks();
    complete.complete(w.map(q!(|v| v + 1)));
    out.map(q!(|c| c as u64)).weaken_ordering::<NoOrder>()
}

/// forward reference to a singleton inside a tick (the shape of paxos's a_log)
pub fn forward_ref_in_tick<'a>(w: In<'a>) -> Out<'a> {
    let tick = w.location().tick();
    let (complete, fwd) = tick.forward_ref::<Singleton<usize, _, Bounded>>();
    let batch = w.batch(&tick, nondet!(/** verif */));
    let out = batch.clone().cross_singleton(fwd).map(q!(|(v, c)| v as u64 * 100 + c as u64)).all_ticks();
    complete.complete(batch.count());
    out.weaken_ordering::<NoOrder>()
}

/// forward reference to a singleton inside a tick, completed with an atomic snapshot
pub fn forward_ref_atomic_snapshot<'a>(w: In<'a>) -> Out<'a> {
    let tick = w.location().tick();
    let (complete, fwd) = tick.forward_ref::<Singleton<usize, _, Bounded>>();
    let batch = w.batch(&tick, nondet!(/** verif */));
    let out = batch.clone().cross_singleton(fwd).map(q!(|(v, c)| v as u64 * 100 + c as u64)).all_ticks();
    let seen = batch.all_ticks_atomic().count();
    complete.complete(seen.snapshot_atomic(&tick, nondet!(/** verif */)));
    out.weaken_ordering::<NoOrder>()
}

// ---- more than one location ---------------------------------------------------------------------

/// network hop to a second process and back
pub fn two_process_hop<'a>(w: In<'a>, peer: &Process<'a, Peer41>) -> Out<'a> {
    let home = w.location().clone();
    let tick = peer.tick();
    w.send(peer, TCP.fail_stop().bincode())
        .batch(&tick, nondet!(/** verif */))
        .map(q!(|v| v as u64 + 1))
        .all_ticks()
        .send(&home, TCP.fail_stop().bincode())
        .weaken_ordering::<NoOrder>()
}

/// atomic region on the far side of a network hop, read by two ticks there
pub fn hop_then_atomic_2<'a>(w: In<'a>, r1: In<'a>, r2: In<'a>, peer: &Process<'a, Peer41>) -> Out<'a> {
    let home = w.location().clone();
    let c = w.send(peer, TCP.fail_stop().bincode()).atomic().count();
    let read = |reads: In<'a>, c| {
        sliced! {
            let batch = use::batch(reads.send(peer, TCP.fail_stop().bincode()), nondet!(/** verif */));
            let snap = use::atomic(c, nondet!(/** verif */));
            batch.cross_singleton(snap).map(q!(|(r, c)| r as u64 * 100 + c as u64))
        }
        .send(&home, TCP.fail_stop().bincode())
        .weaken_ordering::<NoOrder>()
    };
    read(r1, c.clone()).merge_unordered(read(r2, c))
}

/// broadcast to a cluster, per-member tick, results sent back
pub fn cluster_roundtrip<'a>(w: In<'a>, workers: &Cluster<'a, Worker41>) -> Out<'a> {
    let home = w.location().clone();
    let tick = workers.tick();
    w.broadcast(workers, TCP.fail_stop().bincode(), nondet!(/** verif: membership */))
        .batch(&tick, nondet!(/** verif */))
        .count()
        .all_ticks()
        .send(&home, TCP.fail_stop().bincode())
        .values()
        .map(q!(|c| c as u64))
        .weaken_ordering::<NoOrder>()
}

/// an atomic region on every cluster member, read by two ticks per member
pub fn cluster_atomic_2<'a>(w: In<'a>, r: In<'a>, workers: &Cluster<'a, Worker41>) -> Out<'a> {
    let home = w.location().clone();
    let p = w.broadcast(workers, TCP.fail_stop().bincode(), nondet!(/** verif: membership */)).atomic();
    let c = p.clone().count();
    let reads = r.broadcast(workers, TCP.fail_stop().bincode(), nondet!(/** verif: membership */));
    let o1 = sliced! {
        let batch = use::batch(reads, nondet!(/** verif */));
        let snap = use::atomic(c.clone(), nondet!(/** verif */));
        batch.cross_singleton(snap).map(q!(|(r, c)| r as u64 * 100 + c as u64))
    };
    let o2 = sliced! {
        let b = use::atomic(p, nondet!(/** verif */));
        let snap = use::atomic(c, nondet!(/** verif */));
        b.cross_singleton(snap).map(q!(|(v, c)| 10_000 + v as u64 * 100 + c as u64))
    };
    o1.weaken_ordering::<NoOrder>()
        .merge_unordered(o2.weaken_ordering::<NoOrder>())
        .send(&home, TCP.fail_stop().bincode())
        .values()
        .weaken_ordering::<NoOrder>()
}

// ---- wrappers around programs defined elsewhere (same u32 -> u64 interface) -----------------

use crate::slices;
type Ps<'a> = Process<'a, slices::Node>;
type Ins<'a> = Stream<u32, Ps<'a>, Unbounded>;
type Outs<'a> = Stream<u64, Ps<'a>, Unbounded, NoOrder>;

pub fn slices_p1<'a>(w: Ins<'a>) -> Outs<'a> {
    slices::batch_snapshot_state(w).map(q!(|(b, s, i, o)| b.len() as u64 * 1000 + s as u64 * 100 + i as u64 * 10 + o as u64)).weaken_ordering::<NoOrder>()
}
pub fn slices_p2<'a>(w: Ins<'a>) -> Outs<'a> {
    slices::batch_state_null(w).map(q!(|(b, p, l)| b.len() as u64 * 10_000 + p as u64 * 100 + l as u64)).weaken_ordering::<NoOrder>()
}
pub fn slices_p3<'a>(w: Ins<'a>) -> Outs<'a> {
    let (ack, out) = slices::atomic_batch_count(w);
    ack.map(q!(|v| v as u64)).weaken_ordering::<NoOrder>().merge_unordered(out.map(q!(|(b, c)| 1000 + b.len() as u64 * 10 + c as u64)).weaken_ordering::<NoOrder>())
}
pub fn slices_p4<'a>(w: Ins<'a>) -> Outs<'a> {
    slices::unordered_batch_snapshot_state(w.weaken_ordering::<NoOrder>()).map(q!(|(b, s, i, o)| b.len() as u64 * 1000 + s as u64 * 100 + i as u64 * 10 + o as u64)).weaken_ordering::<NoOrder>()
}
pub fn slices_p5<'a>(a: Ins<'a>, b: Ins<'a>) -> Outs<'a> {
    slices::two_batches_snapshot(a, b).map(q!(|(x, y, s)| x.len() as u64 * 100 + y.len() as u64 * 10 + s as u64)).weaken_ordering::<NoOrder>()
}
pub fn slices_p6<'a>(w: Ins<'a>) -> Outs<'a> {
    slices::keyed_batch(w.map(q!(|v| (v % 2, v)))).map(q!(|r| r.len() as u64)).weaken_ordering::<NoOrder>()
}
pub fn slices_p7<'a>(w: Ins<'a>) -> Outs<'a> {
    slices::atomic_batch_count_state(w).map(q!(|(b, c, p)| b.len() as u64 * 100 + c as u64 * 10 + p as u64)).weaken_ordering::<NoOrder>()
}

pub fn quorum_keys<'a>(w: In<'a>) -> Out<'a> {
    let (ok, err) = hydro_std::quorum::collect_quorum(w.map(q!(|v| (v % 2, if v % 3 == 0 { Err(v) } else { Ok(()) }))), 2, 3);
    ok.map(q!(|k| k as u64)).merge_unordered(err.map(q!(|(k, e)| 100 + k as u64 * 10 + e as u64)))
}
pub fn quorum_responses<'a>(w: In<'a>) -> Out<'a> {
    let (ok, err) = hydro_std::quorum::collect_quorum_with_response(w.map(q!(|v| (v % 2, if v % 3 == 0 { Err(v) } else { Ok(v) }))), 1, 2);
    ok.map(q!(|(k, v)| k as u64 * 10 + v as u64)).weaken_ordering::<NoOrder>().merge_unordered(err.map(q!(|(k, e)| 100 + k as u64 * 10 + e as u64)))
}

/// the repo's test wiring of hydro_std's join_responses (atomic metadata + slice state)
pub fn join_responses_wiring<'a>(meta: In<'a>, resp: In<'a>) -> Out<'a> {
    let tick = meta.location().tick();
    let processing = meta.map(q!(|v| (v, v * 10))).atomic();
    let ack = processing.clone().end_atomic();
    let metadata = processing.batch_atomic(&tick, nondet!(/** as in the repo's tests */)).weaken_ordering::<NoOrder>();
    let joined = hydro_std::request_response::join_responses(resp.map(q!(|v| (v, v + 100))).weaken_ordering::<NoOrder>(), metadata);
    ack.map(q!(|(k, _)| k as u64)).weaken_ordering::<NoOrder>().merge_unordered(joined.map(q!(|(k, (m, r))| 1000 + k as u64 * 100 + m as u64 + r as u64)))
}

/// paxos's index_payloads (state + atomic Optional + atomic stream, yield_atomic, batch_atomic)
pub fn paxos_index_payloads<'a>(w: In<'a>) -> Out<'a> {
    let tick = w.location().tick();
    hydro_test::cluster::paxos::index_payloads(tick.none(), w.batch(&tick, nondet!(/** as in the repo's test */)))
        .all_ticks()
        .map(q!(|(slot, v)| slot as u64 * 100 + v as u64))
        .weaken_ordering::<NoOrder>()
}
