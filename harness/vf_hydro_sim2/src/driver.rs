//! Recording bolero driver for hook H3 (`CompiledSim::verif_run_with_driver`).
//!
//! Every nondeterministic decision of the simulator (`(a..b).any()`, `produce::<bool>()`) is
//! answered from a `vf_explore::Chooser`, so `vf_explore::explore` sees the branching factor of every
//! decision and can enumerate all executions with at most `bound` non-default decisions.
//!
//! Orientation (choice 0 = the boring answer), derived from `hydro_lang/src/sim/runtime.rs` and
//! `sim/compiled.rs`:
//! * `lo..hi` (exclusive upper bound: scheduler "which ready tick/observation", NoOrder item index,
//!   snapshot index, key index): choice c -> lo + c, i.e. 0 = first ready tick / first pending item /
//!   oldest unreleased snapshot (no state skipped).
//! * `lo..=hi` (inclusive upper bound: TotalOrder batch size, keyed batch size, Fisher-Yates
//!   index): choice 0 -> hi (release everything / identity swap in the fold-hook shuffle),
//!   choice c>=1 -> lo + c - 1.
//! * bool (`produce()`): choice 0 -> false (NoOrder hooks: "do not stop releasing"; singleton hooks:
//!   "release a new snapshot"; top-level order hooks: "release"; quiescence fork: "check then end").
//! The mapping is a bijection per call site, so the enumerated space is exactly the decision tree.
use std::ops::Bound;

use bolero_generator::driver::object::DynDriver;
use vf_explore::Chooser;

thread_local! {
    /// While false, every simulator decision takes its default (choice 0) WITHOUT becoming a
    /// choice point of the explorer: a test body can run a deterministic, barrier-separated
    /// prefix under default decisions and open exploration only for its last phase.
    pub static RECORDING: std::cell::Cell<bool> = const { std::cell::Cell::new(true) };
}

pub struct VfDriver {
    pub ch: Chooser,
    depth: usize,
    /// Hard cap on decision points of one execution (runaway guard); exceeding it is reported.
    pub max_points: usize,
    pub overflow: bool,
}

impl VfDriver {
    pub fn new(ch: Chooser, max_points: usize) -> Self {
        VfDriver { ch, depth: 0, max_points, overflow: false }
    }

    fn pick(&mut self, n: usize) -> Option<usize> {
        if !RECORDING.with(|r| r.get()) {
            return Some(0);
        }
        if self.ch.trace.len() >= self.max_points {
            // Answering `None` makes bolero raise its "invalid input" panic (an `any::Error`
            // payload): the instance is discarded and counted by the caller as capped.
            self.overflow = true;
            return None;
        }
        Some(self.ch.choose(n))
    }

    fn range(&mut self, lo: u128, hi_incl: u128, inclusive_syntax: bool) -> Option<u128> {
        if hi_incl < lo {
            return None;
        }
        let n = hi_incl - lo + 1;
        if n > 4096 {
            eprintln!("MACHINERY-ERROR: simulator asked for a decision with {n} alternatives");
            std::process::exit(2);
        }
        let n = n as usize;
        if n == 1 {
            return Some(lo);
        }
        let c = self.pick(n)? as u128;
        Some(if inclusive_syntax {
            if c == 0 { hi_incl } else { lo + c - 1 }
        } else {
            lo + c
        })
    }
}

macro_rules! gen_int {
    ($name:ident, $ty:ty) => {
        fn $name(&mut self, min: Bound<&$ty>, max: Bound<&$ty>) -> Option<$ty> {
            // Only unsigned, bounded requests are expected from the simulator; everything is
            // shifted into u128 space relative to the type's minimum.
            let base = <$ty>::MIN as i128;
            let lo = match min {
                Bound::Included(v) => (*v as i128 - base) as u128,
                Bound::Excluded(v) => (*v as i128 - base) as u128 + 1,
                Bound::Unbounded => 0,
            };
            let (hi, incl) = match max {
                Bound::Included(v) => ((*v as i128 - base) as u128, true),
                Bound::Excluded(v) => {
                    let h = (*v as i128 - base) as u128;
                    if h == 0 {
                        return None;
                    }
                    (h - 1, false)
                }
                Bound::Unbounded => {
                    eprintln!("MACHINERY-ERROR: simulator asked for an unbounded {}", stringify!($ty));
                    std::process::exit(2);
                }
            };
            self.range(lo, hi, incl).map(|v| (v as i128 + base) as $ty)
        }
    };
}

impl DynDriver for VfDriver {
    fn depth(&self) -> usize {
        self.depth
    }
    fn set_depth(&mut self, depth: usize) {
        self.depth = depth;
    }
    fn max_depth(&self) -> usize {
        64
    }
    fn gen_variant(&mut self, variants: usize, _base_case: usize) -> Option<usize> {
        if variants <= 1 {
            return Some(0);
        }
        self.pick(variants)
    }
    gen_int!(gen_u8, u8);
    gen_int!(gen_i8, i8);
    gen_int!(gen_u16, u16);
    gen_int!(gen_i16, i16);
    gen_int!(gen_u32, u32);
    gen_int!(gen_i32, i32);
    gen_int!(gen_u64, u64);
    gen_int!(gen_i64, i64);
    gen_int!(gen_usize, usize);
    gen_int!(gen_isize, isize);
    fn gen_u128(&mut self, _min: Bound<&u128>, _max: Bound<&u128>) -> Option<u128> {
        eprintln!("MACHINERY-ERROR: simulator asked for a u128 decision");
        std::process::exit(2);
    }
    fn gen_i128(&mut self, _min: Bound<&i128>, _max: Bound<&i128>) -> Option<i128> {
        eprintln!("MACHINERY-ERROR: simulator asked for an i128 decision");
        std::process::exit(2);
    }
    fn gen_f32(&mut self, _min: Bound<&f32>, _max: Bound<&f32>) -> Option<f32> {
        eprintln!("MACHINERY-ERROR: simulator asked for a float decision");
        std::process::exit(2);
    }
    fn gen_f64(&mut self, _min: Bound<&f64>, _max: Bound<&f64>) -> Option<f64> {
        eprintln!("MACHINERY-ERROR: simulator asked for a float decision");
        std::process::exit(2);
    }
    fn gen_char(&mut self, _min: Bound<&char>, _max: Bound<&char>) -> Option<char> {
        eprintln!("MACHINERY-ERROR: simulator asked for a char decision");
        std::process::exit(2);
    }
    fn gen_bool(&mut self, _probability: Option<f32>) -> Option<bool> {
        self.pick(2).map(|c| c == 1)
    }
    fn gen_from_bytes(
        &mut self,
        _hint: &mut dyn FnMut() -> (usize, Option<usize>),
        _produce: &mut dyn FnMut(&[u8]) -> Option<usize>,
    ) -> Option<()> {
        eprintln!("MACHINERY-ERROR: simulator asked for raw bytes");
        std::process::exit(2);
    }
}

/// Outcome of one simulator instance run under the recording driver.
pub enum RunEnd {
    /// The test body ran to completion.
    Completed,
    /// The instance was discarded (`continue_if!`, quiescence-check fork, or decision cap).
    Discarded,
    /// The instance panicked (assertion in the program / simulator / body).
    Panicked(String),
}

pub fn classify(res: std::thread::Result<()>) -> RunEnd {
    match res {
        Ok(()) => RunEnd::Completed,
        Err(p) => {
            if p.downcast_ref::<bolero_generator::any::Error>().is_some() {
                RunEnd::Discarded
            } else if let Some(s) = p.downcast_ref::<&str>() {
                RunEnd::Panicked(s.to_string())
            } else if let Some(s) = p.downcast_ref::<String>() {
                RunEnd::Panicked(s.clone())
            } else {
                RunEnd::Panicked("<non-string panic>".into())
            }
        }
    }
}

/// Runs one instance of `sim` with every decision taken from `ch` (which is moved into the driver
/// for the duration of the run and handed back afterwards, as `explore` reads its trace).
pub fn run_with_chooser(
    sim: &hydro_lang::sim::compiled::CompiledSim,
    ch: &mut Chooser,
    max_points: usize,
    thunk: impl AsyncFnOnce() + std::panic::RefUnwindSafe,
) -> (RunEnd, bool) {
    RECORDING.with(|r| r.set(true));
    let taken = std::mem::replace(ch, Chooser::replay(vec![]));
    let driver = Box::new(VfDriver::new(taken, max_points));
    // `exhaustive = false`: quiescence assertions do not fork; bodies drain with `collect`.
    let (driver, res) = sim.verif_run_with_driver(driver, false, false, thunk);
    let VfDriver { ch: back, overflow, .. } = *driver;
    *ch = back;
    (classify(res), overflow)
}
