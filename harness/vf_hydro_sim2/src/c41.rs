//! C41, simulator-builder part: every program of a bounded family of small well-typed Hydro flows
//! must be accepted by `flow.sim().compiled()` (IR -> per-location / per-tick DFIR graphs -> rustc).
//!
//! Programs are compiled in groups (one simulation per group, each program on processes of its
//! own); if a group is rejected, each of its programs is compiled alone to name the culprit. Every
//! compiled program is then run with a trivial body (all schedules with <= 1 deviation); a run-time panic
//! there is an OBSERVATION, not a verdict (the statement is about building the dataflow).
use std::time::Instant;

use hydro_lang::live_collections::stream::{ExactlyOnce, NoOrder, TotalOrder};
use hydro_lang::prelude::*;
use hydro_lang::sim::compiled::CompiledSim;
use hydro_lang::sim::{SimReceiver, SimSender};
use vf_explore::{Report, Stats, Value, catch, json};
use vf_hydro_sim2::c41progs as p;
use vf_hydro_sim2::slices;

use crate::driver::{RunEnd, run_with_chooser};
use crate::{Rec, machinery};

type Tx = SimSender<u32, TotalOrder, ExactlyOnce>;
type Rx = SimReceiver<u64, NoOrder, ExactlyOnce>;

struct Io {
    name: &'static str,
    ins: Vec<Tx>,
    out: Rx,
}

fn inp<'a, T>(n: &Process<'a, T>, ins: &mut Vec<Tx>) -> Stream<u32, Process<'a, T>, Unbounded> {
    let (tx, s) = n.sim_input::<u32, TotalOrder, ExactlyOnce>();
    ins.push(tx);
    s
}

/// Adds one program of the family to `flow` (own process; peers / clusters as needed).
fn add<'a>(name: &'static str, flow: &mut FlowBuilder<'a>, clusters: &mut Vec<Cluster<'a, p::Worker41>>) -> Io {
    let mut ins: Vec<Tx> = vec![];
    let i = &mut ins;
    let n = flow.process::<p::Node41>();
    macro_rules! x {
        () => {
            inp(&n, i)
        };
    }
    let out: Rx = match name {
        "atomic_count_1" => p::atomic_count_1(x!(), x!()).sim_output(),
        "atomic_count_2" => p::atomic_count_2(x!(), x!(), x!()).sim_output(),
        "atomic_count_3" => p::atomic_count_3(x!(), x!(), x!(), x!()).sim_output(),
        "atomic_count_2_no_ack" => p::atomic_count_2_no_ack(x!(), x!(), x!()).sim_output(),
        "atomic_fold_and_count" => p::atomic_fold_and_count(x!(), x!(), x!()).sim_output(),
        "atomic_count_state" => p::atomic_count_state(x!(), x!()).sim_output(),
        "atomic_stream_1" => p::atomic_stream_1(x!()).sim_output(),
        "atomic_stream_2" => p::atomic_stream_2(x!()).sim_output(),
        "atomic_stream_and_counts" => p::atomic_stream_and_counts(x!(), x!(), x!()).sim_output(),
        "two_regions_one_tick" => p::two_regions_one_tick(x!(), x!(), x!()).sim_output(),
        "two_regions_three_ticks" => p::two_regions_three_ticks(x!(), x!(), x!(), x!(), x!()).sim_output(),
        "atomic_keyed_2" => p::atomic_keyed_2(x!()).sim_output(),
        "yield_atomic_roundtrip" => p::yield_atomic_roundtrip(x!(), x!()).sim_output(),
        "across_ticks_max" => p::across_ticks_max(x!()).sim_output(),
        "across_ticks_and_slice" => p::across_ticks_and_slice(x!(), x!()).sim_output(),
        "forward_ref_atomic_snapshot" => p::forward_ref_atomic_snapshot(x!()).sim_output(),
        "join_responses_wiring" => p::join_responses_wiring(x!(), x!()).sim_output(),
        "paxos_index_payloads" => p::paxos_index_payloads(x!()).sim_output(),
        "snapshot_shared_2" => p::snapshot_shared_2(x!(), x!(), x!()).sim_output(),
        "snapshot_shared_3" => p::snapshot_shared_3(x!(), x!(), x!(), x!()).sim_output(),
        "atomic_and_plain_readers" => p::atomic_and_plain_readers(x!(), x!(), x!()).sim_output(),
        "state_and_state_null" => p::state_and_state_null(x!()).sim_output(),
        "stream_state" => p::stream_state(x!()).sim_output(),
        "tick_count" => p::tick_count(x!()).sim_output(),
        "tick_cycle_sum" => p::tick_cycle_sum(x!()).sim_output(),
        "tick_cycle_optional" => p::tick_cycle_optional(x!()).sim_output(),
        "tick_cycle_stream" => p::tick_cycle_stream(x!()).sim_output(),
        "tick_defer" => p::tick_defer(x!()).sim_output(),
        "tick_batch_and_snapshot" => p::tick_batch_and_snapshot(x!(), x!()).sim_output(),
        "tick_keyed_fold" => p::tick_keyed_fold(x!()).sim_output(),
        "keyed_snapshot" => p::keyed_snapshot(x!(), x!()).sim_output(),
        "tee_tick_and_top_level" => p::tee_tick_and_top_level(x!()).sim_output(),
        "two_ticks_chain" => p::two_ticks_chain(x!()).sim_output(),
        "forward_ref_top_level" => p::forward_ref_top_level(x!()).sim_output(),
        "forward_ref_in_tick" => p::forward_ref_in_tick(x!()).sim_output(),
        "quorum_keys" => p::quorum_keys(x!()).sim_output(),
        "quorum_responses" => p::quorum_responses(x!()).sim_output(),
        "two_process_hop" => {
            let peer = flow.process::<p::Peer41>();
            p::two_process_hop(x!(), &peer).sim_output()
        }
        "hop_then_atomic_2" => {
            let peer = flow.process::<p::Peer41>();
            p::hop_then_atomic_2(x!(), x!(), x!(), &peer).sim_output()
        }
        "cluster_roundtrip" => {
            let c = flow.cluster::<p::Worker41>();
            let o = p::cluster_roundtrip(x!(), &c).sim_output();
            clusters.push(c);
            o
        }
        "cluster_atomic_2" => {
            let c = flow.cluster::<p::Worker41>();
            let o = p::cluster_atomic_2(x!(), x!(), &c).sim_output();
            clusters.push(c);
            o
        }
        s if s.starts_with("slices_") => {
            let ns = flow.process::<slices::Node>();
            match s {
                "slices_p1" => p::slices_p1(inp(&ns, i)).sim_output(),
                "slices_p2" => p::slices_p2(inp(&ns, i)).sim_output(),
                "slices_p3" => p::slices_p3(inp(&ns, i)).sim_output(),
                "slices_p4" => p::slices_p4(inp(&ns, i)).sim_output(),
                "slices_p5" => p::slices_p5(inp(&ns, i), inp(&ns, i)).sim_output(),
                "slices_p6" => p::slices_p6(inp(&ns, i)).sim_output(),
                _ => p::slices_p7(inp(&ns, i)).sim_output(),
            }
        }
        other => machinery(&format!("unknown C41 program {other}")),
    };
    Io { name, ins, out }
}

/// The family, grouped. Programs that snapshot a top-level singleton can run an idle tick, which
/// multiplies the schedules of their neighbours, so those groups are kept small.
const GROUPS: &[(&str, &[&str])] = &[
    ("atomic_a", &["atomic_count_1", "atomic_count_2", "atomic_count_3", "atomic_count_2_no_ack", "atomic_fold_and_count", "atomic_count_state"]),
    ("atomic_b", &["atomic_stream_1", "atomic_stream_2", "atomic_stream_and_counts", "two_regions_one_tick", "two_regions_three_ticks", "atomic_keyed_2"]),
    (
        "atomic_c",
        &["yield_atomic_roundtrip", "across_ticks_max", "across_ticks_and_slice", "forward_ref_atomic_snapshot", "slices_p3", "slices_p7", "paxos_index_payloads", "join_responses_wiring"],
    ),
    (
        "ticks",
        &[
            "tick_count",
            "tick_cycle_sum",
            "tick_cycle_optional",
            "tick_cycle_stream",
            "tick_defer",
            "tick_keyed_fold",
            "two_ticks_chain",
            "forward_ref_top_level",
            "forward_ref_in_tick",
            "state_and_state_null",
            "stream_state",
            "slices_p2",
            "slices_p6",
            "quorum_keys",
            "quorum_responses",
        ],
    ),
    ("snapshot_a", &["snapshot_shared_2", "tick_batch_and_snapshot", "slices_p1"]),
    ("snapshot_b", &["snapshot_shared_3", "keyed_snapshot", "slices_p4"]),
    ("snapshot_c", &["atomic_and_plain_readers", "tee_tick_and_top_level", "slices_p5"]),
    ("network", &["two_process_hop", "hop_then_atomic_2", "cluster_roundtrip", "cluster_atomic_2"]),
];

/// Builds the flow holding `names` and hands it to the simulator builder.
fn compile(names: &[&'static str]) -> Result<(CompiledSim, Vec<Io>), String> {
    catch(std::panic::AssertUnwindSafe(|| {
        let mut flow = FlowBuilder::new();
        let mut clusters = vec![];
        let ios: Vec<Io> = names.iter().map(|n| add(n, &mut flow, &mut clusters)).collect();
        let mut sim = flow.sim();
        for c in &clusters {
            sim = sim.with_cluster_size(c, 2);
        }
        (sim.compiled(), ios)
    }))
}

fn first_line(m: &str) -> String {
    m.lines().next().unwrap_or("").chars().take(300).collect()
}

/// Stable class of a builder failure message (identifiers like `stream_7` vary with the program).
fn class(m: &str) -> String {
    let l = first_line(m);
    let l = l.split(':').next().unwrap_or("").to_string();
    l.chars().filter(|c| !c.is_ascii_digit()).take(60).collect::<String>().trim().to_string()
}

pub fn run(rep: &mut Report, _thorough: bool, replay: Option<Value>) {
    rep.rule = "case = one program of a fixed family of small well-typed Hydro flows (atomic regions consumed by 1-3 ticks, merged regions, yield_atomic / across_ticks round trips, slices sharing state through use::atomic / use::snapshot / use::state(_null), tick cycles, defer_tick, forward refs at top level / in a tick / completed atomically, tees into tick + top-level state, keyed variants, a network hop, a 2-member cluster); distinct = program".into();
    rep.explanation = "every program must be accepted by the SIMULATOR builder: flow.sim().compiled() (compile_network, unify_atomic_ticks, per-location and per-tick DFIR graph construction, partitioning, code generation, rustc of the generated dylib) must not panic; each compiled program is then run with 1-2 inputs per port under every schedule with at most one non-default simulator decision (hook H3), only to count executions — a run-time panic there is an OBSERVATION, not a violation".into();
    rep.assume("programs are compiled in groups sharing one simulation; a rejected group is re-compiled program by program to name the culprit");
    rep.assume("constructs the simulator documents as unsupported (todo!: top-level unbounded reduce, non-atomic Optional yield, unbounded keyed singletons, wall-clock sources) are not in the family");
    let n_programs: usize = GROUPS.iter().map(|g| g.1.len()).sum();
    rep.bound("programs", n_programs);
    rep.bound("groups", GROUPS.len());

    let only: Option<String> = replay.and_then(|c| c["program"].as_str().map(String::from));
    let mut st = Stats::new();
    let mut observations: Vec<Value> = vec![];
    let t0 = Instant::now();
    for (gname, names) in GROUPS {
        let names: Vec<&'static str> = names.iter().copied().filter(|n| only.as_ref().is_none_or(|o| o == n)).collect();
        if names.is_empty() {
            continue;
        }
        let tg = Instant::now();
        let mut compiled: Vec<(CompiledSim, Vec<Io>)> = vec![];
        match compile(&names) {
            Ok(c) => {
                for n in &names {
                    st.eval();
                    st.nontrivial(n);
                    st.outcome(&(n, "compiled"));
                }
                compiled.push(c);
            }
            Err(group_msg) => {
                // name the culprit(s): every program alone
                let mut culprits = 0;
                for n in &names {
                    st.eval();
                    st.nontrivial(n);
                    match compile(&[n]) {
                        Ok(c) => {
                            st.outcome(&(n, "compiled"));
                            compiled.push(c);
                        }
                        Err(m) => {
                            // a failing case is executed twice before it is reported
                            if compile(&[n]).is_ok() {
                                machinery(&format!("C41 {n}: builder failure did not reproduce: {}", first_line(&m)));
                            }
                            culprits += 1;
                            st.outcome(&(n, "rejected", class(&m)));
                            st.violation(
                                format!("C41:simbuilder:{n}"),
                                format!("flow.sim().compiled() rejected the well-typed program {n}: {}", first_line(&m)),
                                json!({"program": n, "message": m.chars().take(1500).collect::<String>()}),
                            );
                        }
                    }
                }
                if culprits == 0 {
                    st.violation(
                        format!("C41:simbuilder:group:{gname}"),
                        format!("flow.sim().compiled() rejected the group {gname} ({names:?}) although each program alone is accepted: {}", first_line(&group_msg)),
                        json!({"group": gname, "message": group_msg.chars().take(1500).collect::<String>()}),
                    );
                }
            }
        }
        let t_compile = tg.elapsed().as_secs_f64();
        // trivial runs (counting only)
        let mut runs = 0usize;
        for (sim, ios) in &compiled {
            for io in ios {
                // all schedules with at most one non-default simulator decision (hook H3)
                let rec: Rec<Vec<u64>> = Rec::new();
                let per_port: u32 = if io.ins.len() <= 2 { 2 } else { 1 };
                let mut panics: Vec<String> = vec![];
                let ex = vf_explore::explore(Some(1), 2000, |ch| {
                    let (end, _overflow) = run_with_chooser(sim, ch, 5000, async || {
                        for (k, tx) in io.ins.iter().enumerate() {
                            for v in 1..=per_port {
                                tx.send(k as u32 * 2 + v);
                            }
                        }
                        rec.push(io.out.collect_sorted().await);
                    });
                    if let RunEnd::Panicked(m) = end {
                        panics.push(m);
                    }
                });
                let outs = rec.take();
                runs += ex.executions as usize;
                for o in &outs {
                    st.outcome(&(io.name, o));
                }
                st.sample(|| json!({"program": io.name, "schedules": ex.executions, "first_output": format!("{:?}", outs.first())}));
                if let Some(m) = panics.first() {
                    println!("OBSERVATION: property=C41 simulator run of {} panicked in {} of {} schedules: {}", io.name, panics.len(), ex.executions, first_line(m));
                    observations.push(json!({"program": io.name, "panicking_schedules": panics.len(), "panic": first_line(m)}));
                }
            }
        }
        println!("  [{gname}] programs={} compile={:.1}s trivial_run_schedules={} total={:.1}s", names.len(), t_compile, runs, tg.elapsed().as_secs_f64());
    }
    rep.bound("observations", json!(observations));
    println!("  C41 simbuilder: {} programs, {} violations, {} observations, {:.1}s", st.evaluations, st.violations_total, observations.len(), t0.elapsed().as_secs_f64());
    if only.is_some() {
        std::process::exit(if st.violations_total > 0 { 1 } else { 0 });
    }
    rep.section("simbuilder", st);
}
