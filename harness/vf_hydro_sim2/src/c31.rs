//! C31 — slices partition streams and take monotone snapshots.
use std::fmt::Debug;
use std::hash::Hash;

use hydro_lang::live_collections::stream::{ExactlyOnce, NoOrder, TotalOrder};
use hydro_lang::prelude::*;
use vf_explore::{Report, Stats, Value, json};
use vf_hydro_sim2::slices;

use crate::{Rec, exhaustive, machinery};

type R1 = (Vec<u32>, usize, usize, usize);
type R2 = (Vec<u32>, u32, u32);
type R3 = (Vec<u32>, usize);
type R5 = (Vec<u32>, Vec<u32>, usize);
type R6 = Vec<(u32, Vec<u32>)>;
type R7 = (Vec<u32>, usize, usize);

/// One observed execution: the sequence of per-slice records (+ the ack stream for P3).
#[derive(Clone, Debug, Hash, PartialEq, Eq)]
pub enum Obs {
    P1(Vec<R1>),
    P2(Vec<R2>),
    P3(Vec<u32>, Vec<R3>),
    P4(Vec<R1>),
    P5(Vec<R5>),
    P6(Vec<R6>),
    P7(Vec<R7>),
    /// two slices over ONE collection: (records of slice a, records of slice b)
    P8(Vec<R6>, Vec<R6>),
    P9(Vec<Vec<u32>>, Vec<Vec<u32>>),
    P10(Vec<R3>, Vec<R3>),
    P11(Vec<R6>, Vec<R6>),
}

fn inputs(n: usize) -> Vec<u32> {
    (1..=n as u32).collect()
}

/// The oracle. `n` inputs 1..=n were sent (P5: a gets 1..=n, b gets 101..=100+nb; P6: element i
/// has key 1 + (i-1) % 2 for pattern 'alt', see `keyed_inputs`).
fn oracle(obs: &Obs, n: usize, nb: usize) -> Result<(), String> {
    fn partition(batches: &[&Vec<u32>], expect: &[u32], ordered: bool) -> Result<(), String> {
        let mut cat: Vec<u32> = batches.iter().flat_map(|b| b.iter().copied()).collect();
        let mut exp = expect.to_vec();
        if !ordered {
            cat.sort();
            exp.sort();
        }
        if cat != exp {
            return Err(format!("partition: concatenated batches {cat:?} != input {exp:?}"));
        }
        Ok(())
    }
    fn monotone(snaps: &[usize], total: usize) -> Result<(), String> {
        for w in snaps.windows(2) {
            if w[1] < w[0] {
                return Err(format!("snapshot went back: {} after {}", w[1], w[0]));
            }
        }
        if let Some(s) = snaps.iter().find(|s| **s > total) {
            return Err(format!("snapshot {s} exceeds the {total} elements ever sent"));
        }
        Ok(())
    }
    match obs {
        Obs::P1(rs) | Obs::P4(rs) => {
            let ordered = matches!(obs, Obs::P1(_));
            partition(&rs.iter().map(|r| &r.0).collect::<Vec<_>>(), &inputs(n), ordered)?;
            monotone(&rs.iter().map(|r| r.1).collect::<Vec<_>>(), n)?;
            let mut carried = 0usize;
            for (j, r) in rs.iter().enumerate() {
                if r.2 != carried {
                    return Err(format!("state: slice {j} read {} but slice {} wrote {carried}", r.2, j as isize - 1));
                }
                if r.3 != r.2 + r.0.len() {
                    return Err(format!(
                        "same cut: slice {j} counted {} new elements but its batch has {}",
                        r.3 - r.2.min(r.3),
                        r.0.len()
                    ));
                }
                carried = r.3;
            }
            Ok(())
        }
        Obs::P2(rs) => {
            partition(&rs.iter().map(|r| &r.0).collect::<Vec<_>>(), &inputs(n), true)?;
            let mut carried = 0u32;
            for (j, r) in rs.iter().enumerate() {
                if r.1 != carried {
                    return Err(format!("state_null: slice {j} read {} but previous slice wrote {carried}", r.1));
                }
                let last = r.0.last().copied().unwrap_or(0);
                if r.2 != last {
                    return Err(format!("same cut: slice {j} stored last={} but its batch is {:?}", r.2, r.0));
                }
                carried = r.2;
            }
            Ok(())
        }
        Obs::P3(acks, rs) => {
            if *acks != inputs(n) {
                return Err(format!("end_atomic acks {acks:?} != input {:?}", inputs(n)));
            }
            partition(&rs.iter().map(|r| &r.0).collect::<Vec<_>>(), &inputs(n), true)?;
            let mut released = 0usize;
            for (j, r) in rs.iter().enumerate() {
                released += r.0.len();
                if r.1 != released {
                    return Err(format!(
                        "atomic cut: slice {j} saw count {} but {released} elements were released up to and including its batch",
                        r.1
                    ));
                }
            }
            Ok(())
        }
        Obs::P5(rs) => {
            partition(&rs.iter().map(|r| &r.0).collect::<Vec<_>>(), &inputs(n), true)?;
            let b: Vec<u32> = (101..=100 + nb as u32).collect();
            partition(&rs.iter().map(|r| &r.1).collect::<Vec<_>>(), &b, true)?;
            monotone(&rs.iter().map(|r| r.2).collect::<Vec<_>>(), n)
        }
        Obs::P8(a, b) | Obs::P11(a, b) => {
            // every slice sees a partition of the FULL keyed input (slice b of P11 is unordered)
            oracle(&Obs::P6(a.clone()), n, nb).map_err(|m| format!("shared-a {m}"))?;
            if matches!(obs, Obs::P8(..)) {
                oracle(&Obs::P6(b.clone()), n, nb).map_err(|m| format!("shared-b {m}"))
            } else {
                for key in [1u32, 2u32] {
                    let mut exp: Vec<u32> = keyed_inputs(n).into_iter().filter(|(k, _)| *k == key).map(|(_, v)| v).collect();
                    let mut got: Vec<u32> = b.iter().flatten().filter(|(k, _)| *k == key).flat_map(|(_, vs)| vs.iter().copied()).collect();
                    exp.sort();
                    got.sort();
                    if got != exp {
                        return Err(format!("shared-b partition: key {key} batches hold {got:?}, input was {exp:?}"));
                    }
                }
                Ok(())
            }
        }
        Obs::P9(a, b) => {
            partition(&a.iter().collect::<Vec<_>>(), &inputs(n), true).map_err(|m| format!("shared-a {m}"))?;
            partition(&b.iter().collect::<Vec<_>>(), &inputs(n), true).map_err(|m| format!("shared-b {m}"))
        }
        Obs::P10(a, b) => {
            for (tag, rs) in [("shared-a", a), ("shared-b", b)] {
                partition(&rs.iter().map(|r| &r.0).collect::<Vec<_>>(), &inputs(n), true).map_err(|m| format!("{tag} {m}"))?;
                monotone(&rs.iter().map(|r| r.1).collect::<Vec<_>>(), n).map_err(|m| format!("{tag} {m}"))?;
            }
            Ok(())
        }
        Obs::P6(rs) => {
            for key in [1u32, 2u32] {
                let exp: Vec<u32> = keyed_inputs(n).into_iter().filter(|(k, _)| *k == key).map(|(_, v)| v).collect();
                let mut got = vec![];
                for r in rs {
                    let mut seen_key = false;
                    for (k, vs) in r {
                        if *k == key {
                            if seen_key {
                                return Err(format!("key {key} appears twice in one slice record {r:?}"));
                            }
                            seen_key = true;
                            got.extend(vs.iter().copied());
                        }
                    }
                }
                if got != exp {
                    return Err(format!("partition: key {key} batches concatenate to {got:?}, input was {exp:?}"));
                }
            }
            if rs.iter().flatten().any(|(k, _)| *k != 1 && *k != 2) {
                return Err("unknown key in a batch".into());
            }
            Ok(())
        }
        Obs::P7(rs) => {
            partition(&rs.iter().map(|r| &r.0).collect::<Vec<_>>(), &inputs(n), true)?;
            let mut released = 0usize;
            let mut carried = 0usize;
            for (j, r) in rs.iter().enumerate() {
                released += r.0.len();
                if r.1 != released {
                    return Err(format!("atomic cut: slice {j} saw count {} with {released} released", r.1));
                }
                if r.2 != carried {
                    return Err(format!("state: slice {j} read {} but previous slice wrote {carried}", r.2));
                }
                carried = r.1;
            }
            Ok(())
        }
    }
}

fn keyed_inputs(n: usize) -> Vec<(u32, u32)> {
    // keys 1,2,1,1 ... : two keys, per-key order matters, values are the global counter
    let keys = [1u32, 2, 1, 1, 2];
    (1..=n as u32).map(|i| (keys[(i - 1) as usize % keys.len()], i)).collect()
}

/// Short class of a failure message (stable part of the violation key).
fn class(msg: &str) -> &str {
    msg.split(':').next().unwrap_or(msg)
}

struct Case {
    prog: &'static str,
    n: usize,
    nb: usize,
    pattern: &'static str,
}
impl Case {
    fn key(&self) -> String {
        format!("{}|n={}|nb={}|{}", self.prog, self.n, self.nb, self.pattern)
    }
}

/// Judge all executions of one case; a failing case is re-run once and must fail the same way.
fn judge(
    st: &mut Stats,
    case: &Case,
    run: &mut dyn FnMut() -> (Result<usize, String>, Vec<Obs>),
) {
    let eval = |res: &Result<usize, String>, obs: &[Obs]| -> Vec<(String, String, Value)> {
        let mut v = vec![];
        if let Err(p) = res {
            v.push((
                format!("C31|{}|panic", case.key()),
                format!("simulation of {} panicked: {}", case.key(), p.chars().take(300).collect::<String>()),
                json!({"prog": case.prog, "n": case.n, "nb": case.nb, "pattern": case.pattern}),
            ));
        }
        for o in obs {
            if let Err(m) = oracle(o, case.n, case.nb) {
                v.push((
                    format!("C31|{}|{}", case.key(), class(&m)),
                    format!("{}: {m}; observed slices {o:?}", case.key()),
                    json!({"prog": case.prog, "n": case.n, "nb": case.nb, "pattern": case.pattern,
                           "observed": format!("{o:?}")}),
                ));
            }
        }
        v
    };
    let (res, obs) = run();
    if let Ok(count) = &res
        && *count != obs.len()
    {
        // every instance of these bodies runs to completion (they end with `collect`)
        machinery(&format!("{}: {count} simulator instances but {} recorded executions", case.key(), obs.len()));
    }
    for o in &obs {
        st.eval();
        st.outcome(&(case.prog, o));
        st.nontrivial(&(case.key(), o));
    }
    if let Some(o) = obs.first() {
        st.sample(|| json!({"case": case.key(), "executions": obs.len(), "first": format!("{o:?}")}));
    }
    let viol = eval(&res, &obs);
    if !viol.is_empty() {
        let (res2, obs2) = run();
        let viol2 = eval(&res2, &obs2);
        let k1: std::collections::BTreeSet<_> = viol.iter().map(|v| v.0.clone()).collect();
        let k2: std::collections::BTreeSet<_> = viol2.iter().map(|v| v.0.clone()).collect();
        if k1 != k2 {
            machinery(&format!("{}: violation did not reproduce ({k1:?} vs {k2:?})", case.key()));
        }
        for (k, w, r) in viol {
            st.violation(k, w, r);
        }
    }
}


pub fn run(rep: &mut Report, thorough: bool, replay: Option<Value>) {
    rep.rule = "case = (slice program, number of inputs, send pattern); for each case the repo's exhaustive simulator search enumerates every release decision (batch boundaries, snapshot versions, tick order); a case/execution is distinct by its sequence of per-slice records".into();
    rep.explanation = "every execution's per-slice records (batch contents, snapshot, state read/written) are checked: batches concatenate to the input (multiset for NoOrder), snapshots never decrease and never exceed what was sent, atomic-style snapshots equal exactly the number of elements released up to and including the slice's batch, state read in slice j+1 equals the value written in slice j".into();
    rep.assume("the simulator's exhaustive search itself is complete (that is C37's subject)");
    rep.assume("corpus of 11 hand-written sliced! programs (4 of them with one collection consumed by two slices) (bounded program family, not all programs)");
    // The state space of the programs that snapshot a top-level fold (its hook enumerates every
    // subset and order of fold inputs) grows fastest, so the bound is per program.
    let max_n = if thorough { 8 } else { 4 };
    let max_n_p1 = if thorough { 6 } else { 4 };
    let max_n_p4 = if thorough { 4 } else { 3 };
    let p5_sizes: &[(usize, usize)] =
        if thorough { &[(1, 1), (1, 2), (2, 1), (2, 2), (3, 1), (1, 3), (3, 2), (2, 3), (3, 3)] } else { &[(1, 1), (1, 2), (2, 1), (2, 2)] };
    rep.bound("max_inputs_P2_P3_P6_P7", max_n);
    rep.bound("max_inputs_P1", max_n_p1);
    rep.bound("max_inputs_P4_unordered", max_n_p4);
    rep.bound("sizes_P5", json!(p5_sizes));
    rep.bound("programs", 11);

    // Programs that snapshot a top-level singleton can run a tick while idle (their snapshot hook
    // holds the initial value), which would multiply the schedules of every other program in the
    // same simulation: each of them gets a simulation of its own; the idle-silent ones share one.
    let mut flow = FlowBuilder::new();
    let node = flow.process::<slices::Node>();
    let (tx1, i1) = node.sim_input::<u32, TotalOrder, ExactlyOnce>();
    let rx1 = slices::batch_snapshot_state(i1).sim_output();
    let sim1 = flow.sim().compiled();

    let mut flow = FlowBuilder::new();
    let node = flow.process::<slices::Node>();
    let (tx4, i4) = node.sim_input::<u32, NoOrder, ExactlyOnce>();
    let rx4 = slices::unordered_batch_snapshot_state(i4).sim_output();
    let sim4 = flow.sim().compiled();

    let mut flow = FlowBuilder::new();
    let node = flow.process::<slices::Node>();
    let (tx5a, i5a) = node.sim_input::<u32, TotalOrder, ExactlyOnce>();
    let (tx5b, i5b) = node.sim_input::<u32, TotalOrder, ExactlyOnce>();
    let rx5 = slices::two_batches_snapshot(i5a, i5b).sim_output();
    let sim5 = flow.sim().compiled();

    let mut flow = FlowBuilder::new();
    let node = flow.process::<slices::Node>();
    let (tx2, i2) = node.sim_input::<u32, TotalOrder, ExactlyOnce>();
    let rx2 = slices::batch_state_null(i2).sim_output();
    let (tx3, i3) = node.sim_input::<u32, TotalOrder, ExactlyOnce>();
    let (ack3, out3) = slices::atomic_batch_count(i3);
    let (rx3a, rx3) = (ack3.sim_output(), out3.sim_output());
    let (tx6, i6) = node.sim_input::<(u32, u32), TotalOrder, ExactlyOnce>();
    let rx6 = slices::keyed_batch(i6).sim_output();
    let (tx7, i7) = node.sim_input::<u32, TotalOrder, ExactlyOnce>();
    let rx7 = slices::atomic_batch_count_state(i7).sim_output();
    let (tx8, i8) = node.sim_input::<(u32, u32), TotalOrder, ExactlyOnce>();
    let (o8a, o8b) = slices::shared_keyed_two_slices(i8);
    let (rx8a, rx8b) = (o8a.sim_output(), o8b.sim_output());
    let (tx9, i9) = node.sim_input::<u32, TotalOrder, ExactlyOnce>();
    let (o9a, o9b) = slices::shared_stream_two_slices(i9);
    let (rx9a, rx9b) = (o9a.sim_output(), o9b.sim_output());
    let (tx11, i11) = node.sim_input::<(u32, u32), TotalOrder, ExactlyOnce>();
    let (o11a, o11b) = slices::shared_keyed_ordered_and_unordered(i11);
    let (rx11a, rx11b) = (o11a.sim_output(), o11b.sim_output());
    let sim = flow.sim().compiled();

    let mut flow = FlowBuilder::new();
    let node = flow.process::<slices::Node>();
    let (tx10, i10) = node.sim_input::<u32, TotalOrder, ExactlyOnce>();
    let (o10a, o10b) = slices::shared_snapshot_two_slices(i10);
    let (rx10a, rx10b) = (o10a.sim_output(), o10b.sim_output());
    let sim10 = flow.sim().compiled();

    let rec: Rec<Obs> = Rec::new();
    let only: Option<(String, usize, usize, String)> = replay.map(|c| {
        (
            c["prog"].as_str().unwrap_or("").to_string(),
            c["n"].as_u64().unwrap_or(0) as usize,
            c["nb"].as_u64().unwrap_or(0) as usize,
            c["pattern"].as_str().unwrap_or("").to_string(),
        )
    });
    let wanted = |c: &Case| only.as_ref().is_none_or(|(p, n, nb, pat)| p == c.prog && *n == c.n && *nb == c.nb && pat == c.pattern);

    let mut sections: Vec<(&'static str, Stats)> = vec![];
    macro_rules! section {
        ($name:expr, $st:ident, $body:block) => {{
            let mut $st = Stats::new();
            $body
            println!(
                "  [{}] executions={} distinct={} violations={}",
                $name,
                $st.evaluations,
                $st.distinct.len(),
                $st.violations_total
            );
            sections.push(($name, $st));
        }};
    }

    // Two send patterns: everything up front, or a first half, one awaited record, then the rest.
    section!("P1_batch_snapshot_state", st, {
        for n in 1..=max_n_p1 {
            for pattern in ["upfront", "split"] {
                let case = Case { prog: "P1", n, nb: 0, pattern };
                if !wanted(&case) {
                    continue;
                }
                judge(&mut st, &case, &mut || {
                    let r = exhaustive(&sim1, async || {
                        let mut got: Vec<R1> = vec![];
                        if pattern == "upfront" {
                            tx1.send_many(inputs(n));
                        } else {
                            let h = n.div_ceil(2);
                            tx1.send_many(inputs(h));
                            got.push(rx1.next().await);
                            tx1.send_many(inputs(n).into_iter().skip(h));
                        }
                        got.extend(rx1.collect::<Vec<_>>().await);
                        rec.push(Obs::P1(got));
                    });
                    (r, rec.take())
                });
            }
        }
    });
    section!("P2_batch_state_null", st, {
        for n in 1..=max_n {
            for pattern in ["upfront", "split"] {
                let case = Case { prog: "P2", n, nb: 0, pattern };
                if !wanted(&case) {
                    continue;
                }
                judge(&mut st, &case, &mut || {
                    let r = exhaustive(&sim, async || {
                        let mut got: Vec<R2> = vec![];
                        if pattern == "upfront" {
                            tx2.send_many(inputs(n));
                        } else {
                            let h = n.div_ceil(2);
                            tx2.send_many(inputs(h));
                            got.push(rx2.next().await);
                            tx2.send_many(inputs(n).into_iter().skip(h));
                        }
                        got.extend(rx2.collect::<Vec<_>>().await);
                        rec.push(Obs::P2(got));
                    });
                    (r, rec.take())
                });
            }
        }
    });
    section!("P3_atomic_batch_count", st, {
        for n in 1..=max_n {
            for pattern in ["upfront", "split"] {
                let case = Case { prog: "P3", n, nb: 0, pattern };
                if !wanted(&case) {
                    continue;
                }
                judge(&mut st, &case, &mut || {
                    let r = exhaustive(&sim, async || {
                        let mut got: Vec<R3> = vec![];
                        if pattern == "upfront" {
                            tx3.send_many(inputs(n));
                        } else {
                            let h = n.div_ceil(2);
                            tx3.send_many(inputs(h));
                            got.push(rx3.next().await);
                            tx3.send_many(inputs(n).into_iter().skip(h));
                        }
                        got.extend(rx3.collect::<Vec<_>>().await);
                        let acks: Vec<u32> = rx3a.collect().await;
                        rec.push(Obs::P3(acks, got));
                    });
                    (r, rec.take())
                });
            }
        }
    });
    section!("P4_unordered", st, {
        for n in 1..=max_n_p4 {
            let case = Case { prog: "P4", n, nb: 0, pattern: "upfront" };
            if !wanted(&case) {
                continue;
            }
            judge(&mut st, &case, &mut || {
                let r = exhaustive(&sim4, async || {
                    tx4.send_many_unordered(inputs(n));
                    let got: Vec<R1> = rx4.collect().await;
                    rec.push(Obs::P4(got));
                });
                (r, rec.take())
            });
        }
    });
    section!("P5_two_batches_snapshot", st, {
        for &(n, nb) in p5_sizes {
            {
                let case = Case { prog: "P5", n, nb, pattern: "upfront" };
                if !wanted(&case) {
                    continue;
                }
                judge(&mut st, &case, &mut || {
                    let r = exhaustive(&sim5, async || {
                        tx5a.send_many(inputs(n));
                        tx5b.send_many(101..=100 + nb as u32);
                        let got: Vec<R5> = rx5.collect().await;
                        rec.push(Obs::P5(got));
                    });
                    (r, rec.take())
                });
            }
        }
    });
    section!("P6_keyed_batch", st, {
        for n in 1..=max_n {
            let case = Case { prog: "P6", n, nb: 0, pattern: "upfront" };
            if !wanted(&case) {
                continue;
            }
            judge(&mut st, &case, &mut || {
                let r = exhaustive(&sim, async || {
                    tx6.send_many(keyed_inputs(n));
                    let got: Vec<R6> = rx6.collect().await;
                    rec.push(Obs::P6(got));
                });
                (r, rec.take())
            });
        }
    });
    section!("P7_atomic_batch_count_state", st, {
        for n in 1..=max_n {
            for pattern in ["upfront", "split"] {
                let case = Case { prog: "P7", n, nb: 0, pattern };
                if !wanted(&case) {
                    continue;
                }
                judge(&mut st, &case, &mut || {
                    let r = exhaustive(&sim, async || {
                        let mut got: Vec<R7> = vec![];
                        if pattern == "upfront" {
                            tx7.send_many(inputs(n));
                        } else {
                            let h = n.div_ceil(2);
                            tx7.send_many(inputs(h));
                            got.push(rx7.next().await);
                            tx7.send_many(inputs(n).into_iter().skip(h));
                        }
                        got.extend(rx7.collect::<Vec<_>>().await);
                        rec.push(Obs::P7(got));
                    });
                    (r, rec.take())
                });
            }
        }
    });
    // ---- one collection consumed by two slices ---------------------------------------------
    let max_n_shared = if thorough { 4 } else { 3 };
    rep.bound("max_inputs_shared_P8_P9_P11", max_n_shared);
    rep.bound("max_inputs_shared_P10", max_n_shared - 2);
    section!("P8_shared_keyed_two_slices", st, {
        for n in 1..=max_n_shared {
            let case = Case { prog: "P8", n, nb: 0, pattern: "upfront" };
            if !wanted(&case) {
                continue;
            }
            judge(&mut st, &case, &mut || {
                let r = exhaustive(&sim, async || {
                    tx8.send_many(keyed_inputs(n));
                    let a: Vec<R6> = rx8a.collect().await;
                    let b: Vec<R6> = rx8b.collect().await;
                    rec.push(Obs::P8(a, b));
                });
                (r, rec.take())
            });
        }
    });
    section!("P9_shared_stream_two_slices", st, {
        for n in 1..=max_n_shared {
            let case = Case { prog: "P9", n, nb: 0, pattern: "upfront" };
            if !wanted(&case) {
                continue;
            }
            judge(&mut st, &case, &mut || {
                let r = exhaustive(&sim, async || {
                    tx9.send_many(inputs(n));
                    let a: Vec<Vec<u32>> = rx9a.collect().await;
                    let b: Vec<Vec<u32>> = rx9b.collect().await;
                    rec.push(Obs::P9(a, b));
                });
                (r, rec.take())
            });
        }
    });
    section!("P10_shared_snapshot_two_slices", st, {
        for n in 1..max_n_shared - 1 {
            let case = Case { prog: "P10", n, nb: 0, pattern: "upfront" };
            if !wanted(&case) {
                continue;
            }
            judge(&mut st, &case, &mut || {
                let r = exhaustive(&sim10, async || {
                    tx10.send_many(inputs(n));
                    let a: Vec<R3> = rx10a.collect().await;
                    let b: Vec<R3> = rx10b.collect().await;
                    rec.push(Obs::P10(a, b));
                });
                (r, rec.take())
            });
        }
    });
    section!("P11_shared_keyed_ordered_and_unordered", st, {
        for n in 1..=max_n_shared {
            let case = Case { prog: "P11", n, nb: 0, pattern: "upfront" };
            if !wanted(&case) {
                continue;
            }
            judge(&mut st, &case, &mut || {
                let r = exhaustive(&sim, async || {
                    tx11.send_many(keyed_inputs(n));
                    let a: Vec<R6> = rx11a.collect().await;
                    let b: Vec<R6> = rx11b.collect().await;
                    rec.push(Obs::P11(a, b));
                });
                (r, rec.take())
            });
        }
    });
    if only.is_some() {
        let v: u64 = sections.iter().map(|(_, s)| s.violations_total).sum();
        let e: u64 = sections.iter().map(|(_, s)| s.evaluations).sum();
        println!("replay: {e} executions re-run, {v} violating");
        std::process::exit(if v > 0 { 1 } else { 0 });
    }
    for (name, st) in sections {
        rep.section(name, st);
    }
}
