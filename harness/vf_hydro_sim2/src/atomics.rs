//! C34: a minimal write/ack + atomic-read program (and its non-atomic twin, used only as a
//! vacuity guard next to the repo's own buggy tutorial variants).
use hydro_lang::prelude::*;

pub struct Server;

type P<'a> = Process<'a, Server>;

/// Writes are folded into a sum inside an atomic region; the ack is released by `end_atomic`;
/// reads take a `use::atomic` snapshot of the sum. Returns (acks, read responses (tag, sum)).
#[expect(clippy::type_complexity, reason = "corpus program")]
pub fn write_ack_atomic_read<'a>(
    writes: Stream<u32, P<'a>, Unbounded>,
    reads: Stream<u32, P<'a>, Unbounded>,
) -> (Stream<u32, P<'a>, Unbounded>, Stream<(u32, u32), P<'a>, Unbounded>) {
    let atomic_write = writes.atomic();
    let sum_state = atomic_write
        .clone()
        .fold(q!(|| 0u32), q!(|s: &mut u32, v: u32| *s += v));
    let acks = atomic_write.end_atomic();
    let responses = sliced! {
        let batch = use::batch(reads, nondet!(/** verif: all batchings enumerated */));
        let snap = use::atomic(sum_state, nondet!(/** verif: atomic snapshot */));
        batch.cross_singleton(snap)
    };
    (acks, responses)
}

/// The same program without the atomic region (ack = the raw write stream, read = plain
/// snapshot): read-after-write is NOT guaranteed.
#[expect(clippy::type_complexity, reason = "corpus program")]
pub fn write_ack_plain_read<'a>(
    writes: Stream<u32, P<'a>, Unbounded>,
    reads: Stream<u32, P<'a>, Unbounded>,
) -> (Stream<u32, P<'a>, Unbounded>, Stream<(u32, u32), P<'a>, Unbounded>) {
    let sum_state = writes
        .clone()
        .fold(q!(|| 0u32), q!(|s: &mut u32, v: u32| *s += v));
    let acks = writes;
    let responses = sliced! {
        let batch = use::batch(reads, nondet!(/** verif: all batchings enumerated */));
        let snap = use::snapshot(sum_state, nondet!(/** verif: all snapshots enumerated */));
        batch.cross_singleton(snap)
    };
    (acks, responses)
}
