//! C40 — replicated logs never diverge (Raft, Paxos), through hook H3 and the deviation-bounded
//! explorer: ALL executions with at most `bound` non-default simulator decisions.
use std::collections::BTreeSet;
use std::time::Instant;

use hydro_lang::live_collections::stream::{ExactlyOnce, TotalOrder};
use hydro_lang::prelude::*;
use hydro_lang::sim::compiled::CompiledSim;
use hydro_lang::sim::{SimClusterReceiver, SimClusterSender};
use hydro_test::cluster::raft::{LogEntry, RaftConfig, Replica, raft};
use vf_explore::{Chooser, Report, Stats, Value, json};

use crate::driver::{RunEnd, run_with_chooser};
use crate::{Rec, machinery};

const N: usize = 3;
/// Runaway guard: no execution of these bounded inputs comes near this many decisions.
const MAX_POINTS: usize = 20_000;

#[derive(Clone, Copy, Debug, PartialEq, Eq, Hash)]
pub struct RaftCfg {
    pub elections_per_member: usize,
    pub requests: usize,
    pub pumps: usize,
}
impl RaftCfg {
    fn key(&self) -> String {
        format!("e={}|r={}|p={}", self.elections_per_member, self.requests, self.pumps)
    }
    fn json(&self) -> Value {
        json!({"elections_per_member": self.elections_per_member, "requests": self.requests, "pumps": self.pumps})
    }
    fn from_json(v: &Value) -> Self {
        RaftCfg {
            elections_per_member: v["elections_per_member"].as_u64().unwrap_or(1) as usize,
            requests: v["requests"].as_u64().unwrap_or(1) as usize,
            pumps: v["pumps"].as_u64().unwrap_or(2) as usize,
        }
    }
}

type Entry = (String, usize, usize); // (message, term, index)
type Histories = Vec<Vec<Entry>>;

pub struct RaftSim {
    sim: CompiledSim,
    election: SimClusterSender<(), TotalOrder, ExactlyOnce>,
    heartbeat: SimClusterSender<(), TotalOrder, ExactlyOnce>,
    request: SimClusterSender<String, TotalOrder, ExactlyOnce>,
    committed: SimClusterReceiver<LogEntry<String>, TotalOrder, ExactlyOnce>,
    redirected: SimClusterReceiver<(String, Option<hydro_lang::location::MemberId<Replica>>), TotalOrder, ExactlyOnce>,
}

/// The wiring of the repo's own simulation tests (`fully_concurrent_run_never_forks_...`).
pub fn build_raft() -> RaftSim {
    let mut flow = FlowBuilder::new();
    let cluster = flow.cluster::<Replica>();
    let (election, election_timer_interrupts) = cluster.sim_input();
    let (heartbeat, heartbeat_timer_interrupts) = cluster.sim_input();
    let (request, requests) = cluster.sim_input::<String, _, _>();
    let (committed, redirected) = raft(
        requests,
        election_timer_interrupts,
        heartbeat_timer_interrupts,
        RaftConfig { cluster_size: N },
        || TCP.fail_stop().bincode(),
        nondet!(/** which member leads and how concurrent requests are ordered is non-deterministic */),
    );
    let committed = committed.end_atomic().sim_cluster_output();
    let redirected = redirected.sim_cluster_output();
    let sim = flow.sim().skip_consistency_assertions().with_cluster_size(&cluster, N).compiled();
    RaftSim { sim, election, heartbeat, request, committed, redirected }
}

/// The safety oracle of the repo's own test.
pub fn safety(h: &Histories) -> Result<(), (String, String)> {
    for (m, hist) in h.iter().enumerate() {
        for (pos, e) in hist.iter().enumerate() {
            if e.2 != pos + 1 {
                return Err(("gap".into(), format!("member {m} emitted committed entries out of order or with gaps: {:?}", hist.iter().map(|e| e.2).collect::<Vec<_>>())));
            }
        }
    }
    for a in 0..h.len() {
        for b in a + 1..h.len() {
            for (pos, (x, y)) in h[a].iter().zip(&h[b]).enumerate() {
                if x != y {
                    return Err(("fork".into(), format!("committed logs forked: members {a} and {b} disagree at committed position {pos}: {x:?} vs {y:?}")));
                }
            }
        }
    }
    Ok(())
}

pub enum Exec {
    Done(Histories),
    Discarded,
    Panicked(String),
    Capped,
}

/// One execution of the fully concurrent run (all inputs up front, one final drain).
pub fn run_raft(rs: &RaftSim, cfg: RaftCfg, ch: &mut Chooser) -> Exec {
    let rec: Rec<Histories> = Rec::new();
    let (end, overflow) = run_with_chooser(&rs.sim, ch, MAX_POINTS, async || {
        let mut sent = 0;
        for wave in 0..cfg.elections_per_member {
            for member in 0..N as u32 {
                rs.election.send(member, ());
                if sent < cfg.requests {
                    rs.request.send(member, format!("w{wave}m{member}"));
                    sent += 1;
                }
            }
        }
        for _ in 0..cfg.pumps {
            for member in 0..N as u32 {
                rs.heartbeat.send(member, ());
            }
        }
        let mut h: Histories = vec![vec![]; N];
        for member in 0..N as u32 {
            let got: Vec<LogEntry<String>> = rs.committed.collect(member).await;
            h[member as usize] = got.into_iter().map(|e| (e.message, e.term_received, e.index)).collect();
            let _: Vec<(String, Option<hydro_lang::location::MemberId<Replica>>)> = rs.redirected.collect(member).await;
        }
        rec.push(h);
    });
    if overflow {
        return Exec::Capped;
    }
    match end {
        RunEnd::Completed => match rec.take().pop() {
            Some(h) => Exec::Done(h),
            None => Exec::Panicked("body completed without recording".into()),
        },
        RunEnd::Discarded => Exec::Discarded,
        RunEnd::Panicked(m) => Exec::Panicked(m),
    }
}

#[derive(Default)]
pub struct Explored {
    pub executions: u64,
    pub discarded: u64,
    pub capped_runs: u64,
    pub committed_some: u64,
    pub max_points: usize,
    pub outcomes: BTreeSet<String>,
    pub violation: Option<(String, String, Vec<usize>)>,
    pub stopped_by_wall: bool,
}

/// Deviation-bounded DFS below `start` (a decision prefix), exactly the semantics of
/// `vf_explore::explore` but resumable from a prefix so that subtrees can be sharded.
pub fn explore_from(
    start: Vec<usize>,
    start_is_root: bool,
    bound: usize,
    deadline: Option<Instant>,
    mut run: impl FnMut(&mut Chooser) -> Exec,
) -> Explored {
    let mut out = Explored::default();
    let mut stack: Vec<Vec<usize>> = vec![start];
    let mut first = true;
    while let Some(prefix) = stack.pop() {
        if let Some(d) = deadline
            && Instant::now() > d
        {
            out.stopped_by_wall = true;
            break;
        }
        let plen = prefix.len();
        let mut ch = Chooser::replay(prefix);
        let ex = run(&mut ch);
        out.executions += 1;
        out.max_points = out.max_points.max(ch.trace.len());
        if ch.trace.len() < plen {
            machinery("execution consumed fewer decisions than its prefix (non-deterministic simulation)");
        }
        let choices = ch.choices();
        match ex {
            Exec::Done(h) => {
                if h.iter().any(|x| !x.is_empty()) {
                    out.committed_some += 1;
                }
                out.outcomes.insert(format!("{h:?}"));
                if let Err((kind, msg)) = safety(&h)
                    && out.violation.is_none()
                {
                    out.violation = Some((kind, format!("{msg}; histories {h:?}"), choices.clone()));
                }
            }
            Exec::Discarded => out.discarded += 1,
            Exec::Capped => out.capped_runs += 1,
            Exec::Panicked(m) => {
                out.outcomes.insert(format!("panic:{}", m.chars().take(80).collect::<String>()));
                if out.violation.is_none() {
                    out.violation = Some(("panic".into(), format!("execution panicked: {}", m.chars().take(400).collect::<String>()), choices.clone()));
                }
            }
        }
        // children: one more non-default decision at any later point, within the bound
        let skip_children_of_root = first && !start_is_root && false;
        first = false;
        if skip_children_of_root {
            continue;
        }
        let mut cost = ch.trace[..plen].iter().filter(|p| p.costly && p.choice != 0).count();
        let mut next = vec![];
        for i in plen..ch.trace.len() {
            let p = ch.trace[i];
            if cost + 1 <= bound {
                for alt in 1..p.n {
                    let mut np: Vec<usize> = choices[..i].to_vec();
                    np.push(alt);
                    next.push(np);
                }
            }
            if p.costly && p.choice != 0 {
                cost += 1;
            }
        }
        next.reverse();
        stack.extend(next);
    }
    out
}

fn configs(thorough: bool) -> Vec<RaftCfg> {
    if thorough {
        vec![
            RaftCfg { elections_per_member: 1, requests: 1, pumps: 2 },
            RaftCfg { elections_per_member: 1, requests: 2, pumps: 3 },
            RaftCfg { elections_per_member: 2, requests: 2, pumps: 4 },
        ]
    } else {
        vec![RaftCfg { elections_per_member: 1, requests: 1, pumps: 2 }, RaftCfg { elections_per_member: 2, requests: 2, pumps: 2 }]
    }
}

pub fn worker(_spec: &str) {
    machinery("worker mode not implemented");
}

pub fn run(rep: &mut Report, thorough: bool, replay: Option<Value>) {
    rep.rule = "case = (protocol, input configuration, simulator decision vector); default decision = first ready tick / release everything; ALL executions with at most `bound` non-default decisions anywhere in the run are enumerated (deviation-bounded DFS through hook H3); distinct = committed histories of all members".into();
    rep.explanation = "exhaustive WITHIN the stated deviation bound (CHESS-style), not over all schedules: every enumerated execution of the repo's Raft wiring (3 members, fail-stop TCP, all timer interrupts / requests / heartbeat pumps sent up front, one final drain) is judged by the repo's own safety oracle: per member contiguous committed indices from 1, pairwise no fork at any committed position, no panic (truncation guard)".into();
    rep.assume("hook H3 (CompiledSim::verif_run_with_driver, cargo feature hydro_verif) replaces only the source of decisions");
    rep.assume("fail-stop network model of the repo's tests; no message loss");
    let bound = if thorough { 2 } else { 1 };
    rep.bound("deviation_bound", bound);
    rep.bound("cluster_size", N);

    let rs = build_raft();

    if let Some(c) = replay {
        let cfg = RaftCfg::from_json(&c["config"]);
        let dec: Vec<usize> = c["decisions"].as_array().map(|a| a.iter().map(|x| x.as_u64().unwrap_or(0) as usize).collect()).unwrap_or_default();
        let mut ch = Chooser::replay(dec);
        let ex = run_raft(&rs, cfg, &mut ch);
        let code = match ex {
            Exec::Done(h) => {
                println!("replay: histories {h:?}");
                match safety(&h) {
                    Ok(()) => 0,
                    Err((k, m)) => {
                        println!("replay: {k}: {m}");
                        1
                    }
                }
            }
            Exec::Panicked(m) => {
                println!("replay: panicked: {m}");
                1
            }
            Exec::Discarded => {
                println!("replay: instance discarded");
                0
            }
            Exec::Capped => {
                println!("replay: decision cap hit");
                0
            }
        };
        std::process::exit(code);
    }

    let wall = if thorough { 900 } else { 60 };
    let deadline = Instant::now() + std::time::Duration::from_secs(wall);
    rep.bound("wall_cap_s", wall);
    for cfg in configs(thorough) {
        let mut st = Stats::new();
        // determinism guard: the default execution twice
        let mut c1 = Chooser::replay(vec![]);
        let e1 = run_raft(&rs, cfg, &mut c1);
        let mut c2 = Chooser::replay(vec![]);
        let e2 = run_raft(&rs, cfg, &mut c2);
        let same = c1.trace == c2.trace
            && match (&e1, &e2) {
                (Exec::Done(a), Exec::Done(b)) => a == b,
                _ => false,
            };
        if !same {
            machinery(&format!("raft {}: the default execution is not reproducible ({} vs {} decisions)", cfg.key(), c1.trace.len(), c2.trace.len()));
        }
        let t0 = Instant::now();
        let ex = explore_from(vec![], true, bound, Some(deadline), |ch| run_raft(&rs, cfg, ch));
        println!(
            "  [raft {}] bound={} executions={} discarded={} capped_runs={} committed_something={} distinct_outcomes={} max_decisions={} wall={:.1}s{}",
            cfg.key(),
            bound,
            ex.executions,
            ex.discarded,
            ex.capped_runs,
            ex.committed_some,
            ex.outcomes.len(),
            ex.max_points,
            t0.elapsed().as_secs_f64(),
            if ex.stopped_by_wall { " (WALL CAP)" } else { "" }
        );
        st.evaluations = ex.executions;
        for o in &ex.outcomes {
            st.outcome(&("raft", o));
            st.nontrivial(&("raft", cfg.key(), o));
        }
        st.sample(|| json!({"protocol": "raft", "config": cfg.json(), "executions": ex.executions, "discarded": ex.discarded, "executions_with_commits": ex.committed_some,
                            "distinct_outcomes": ex.outcomes.len(), "max_decisions": ex.max_points, "one_outcome": ex.outcomes.iter().next_back()}));
        if ex.stopped_by_wall {
            st.cap(format!("raft {}: wall cap {}s hit after {} executions at bound {}", cfg.key(), wall, ex.executions, bound));
        }
        if ex.capped_runs > 0 {
            st.cap(format!("raft {}: {} executions exceeded {} decisions", cfg.key(), ex.capped_runs, MAX_POINTS));
        }
        if let Some((kind, msg, dec)) = ex.violation {
            // re-execute once more before reporting
            let mut ch = Chooser::replay(dec.clone());
            let again = match run_raft(&rs, cfg, &mut ch) {
                Exec::Done(h) => safety(&h).is_err(),
                Exec::Panicked(_) => true,
                _ => false,
            };
            if !again {
                machinery(&format!("raft {}: violation did not reproduce for decisions {dec:?}", cfg.key()));
            }
            st.violation(format!("C40|raft|{}|{kind}", cfg.key()), format!("raft {}: {msg}; decisions {dec:?}", cfg.key()), json!({"protocol": "raft", "config": cfg.json(), "decisions": dec}));
        }
        rep.section(&format!("raft_{}", cfg.key()), st);
    }
}
