//! C40 — replicated logs never diverge (Raft; Paxos cannot run in the repo's simulator, see the
//! assumptions recorded in `run`), through hook H3 and the deviation-bounded
//! explorer: ALL executions with at most `bound` non-default simulator decisions.
use std::collections::BTreeSet;
use std::time::{Duration, Instant};

use hydro_lang::live_collections::stream::{ExactlyOnce, TotalOrder};
use hydro_lang::location::MemberId;
use hydro_lang::prelude::*;
use hydro_lang::sim::compiled::CompiledSim;
use hydro_lang::sim::{SimClusterReceiver, SimClusterSender};
use hydro_test::cluster::raft::{LogEntry, RaftConfig, Replica, raft};
use vf_explore::{Chooser, Report, Stats, Value, json};

use crate::driver::{RunEnd, run_with_chooser};
use crate::{Rec, machinery};

const N: usize = 3; // Raft members
/// Runaway guard: no execution of these bounded inputs comes near this many decisions.
const MAX_POINTS: usize = 20_000;

#[derive(Clone, Copy, Debug, PartialEq, Eq, Hash)]
pub struct Cfg {
    /// "raft"
    pub proto: &'static str,
    /// "concurrent": every input up front, one final drain (repo: fully_concurrent_run_...);
    /// "seeded": member 0 is elected first behind a quiescence barrier, then everything else at
    /// once;
    /// "phased": the body of the repo's concurrent_elections_never_fork_the_committed_log —
    /// member 0 elected and a seed entry committed in quiescence-separated steps, then
    /// `elections` racy rounds (prime a challenger, then in one burst: a request to member 0, a
    /// request to the challenger, heartbeat, the challenger's election interrupt, heartbeat), each
    /// followed by `pumps` settle rounds of heartbeats to every member (`requests` is unused)
    pub shape: &'static str,
    pub elections: usize,
    pub requests: usize,
    pub pumps: usize,
}
impl Cfg {
    fn key(&self) -> String {
        format!("{}|{}|e={}|r={}|p={}", self.proto, self.shape, self.elections, self.requests, self.pumps)
    }
    fn json(&self) -> Value {
        json!({"proto": self.proto, "shape": self.shape, "elections": self.elections, "requests": self.requests, "pumps": self.pumps})
    }
    fn from_json(v: &Value) -> Self {
        Cfg {
            proto: "raft",
            shape: if v["shape"] == "seeded" {
                "seeded"
            } else if v["shape"] == "phased" {
                "phased"
            } else if v["shape"] == "phased_post" {
                "phased_post"
            } else {
                "concurrent"
            },
            elections: v["elections"].as_u64().unwrap_or(1) as usize,
            requests: v["requests"].as_u64().unwrap_or(1) as usize,
            pumps: v["pumps"].as_u64().unwrap_or(2) as usize,
        }
    }
}

type Entry = (String, usize, usize); // (message, term, index)
type Histories = Vec<Vec<Entry>>;

pub struct RaftSim {
    sim: CompiledSim,
    election: SimClusterSender<(), TotalOrder, ExactlyOnce>,
    heartbeat: SimClusterSender<(), TotalOrder, ExactlyOnce>,
    request: SimClusterSender<String, TotalOrder, ExactlyOnce>,
    committed: SimClusterReceiver<LogEntry<String>, TotalOrder, ExactlyOnce>,
    redirected: SimClusterReceiver<(String, Option<MemberId<Replica>>), TotalOrder, ExactlyOnce>,
}

/// The wiring of the repo's own simulation tests (`fully_concurrent_run_never_forks_...`).
pub fn build_raft() -> RaftSim {
    let mut flow = FlowBuilder::new();
    let cluster = flow.cluster::<Replica>();
    let (election, election_timer_interrupts) = cluster.sim_input();
    let (heartbeat, heartbeat_timer_interrupts) = cluster.sim_input();
    let (request, requests) = cluster.sim_input::<String, _, _>();
    let (committed, redirected) = raft(
        requests,
        election_timer_interrupts,
        heartbeat_timer_interrupts,
        RaftConfig { cluster_size: N },
        || TCP.fail_stop().bincode(),
        nondet!(/** which member leads and how concurrent requests are ordered is non-deterministic */),
    );
    let committed = committed.end_atomic().sim_cluster_output();
    let redirected = redirected.sim_cluster_output();
    let sim = flow.sim().skip_consistency_assertions().with_cluster_size(&cluster, N).compiled();
    RaftSim { sim, election, heartbeat, request, committed, redirected }
}

/// The safety oracle of the repo's own Raft test.
pub fn raft_safety(h: &Histories) -> Result<(), (String, String)> {
    for (m, hist) in h.iter().enumerate() {
        for (pos, e) in hist.iter().enumerate() {
            if e.2 != pos + 1 {
                return Err(("gap".into(), format!("member {m} emitted committed entries out of order or with gaps: {:?}", hist.iter().map(|e| e.2).collect::<Vec<_>>())));
            }
        }
    }
    for a in 0..h.len() {
        for b in a + 1..h.len() {
            for (pos, (x, y)) in h[a].iter().zip(&h[b]).enumerate() {
                if x != y {
                    return Err(("fork".into(), format!("committed logs forked: members {a} and {b} disagree at committed position {pos}: {x:?} vs {y:?}")));
                }
            }
        }
    }
    Ok(())
}

pub enum Exec {
    /// completed: printable outcome (committed histories), safety verdict, whether anything committed
    Done { outcome: String, verdict: Result<(), (String, String)>, progressed: bool },
    Discarded,
    Panicked(String),
    Capped,
}

fn finish<T>(end: RunEnd, overflow: bool, rec: &Rec<T>, done: impl FnOnce(T) -> Exec) -> Exec {
    if overflow {
        return Exec::Capped;
    }
    match end {
        RunEnd::Completed => match rec.take().pop() {
            Some(h) => done(h),
            None => Exec::Panicked("body completed without recording".into()),
        },
        RunEnd::Discarded => Exec::Discarded,
        RunEnd::Panicked(m) => Exec::Panicked(m),
    }
}

pub fn run_raft(rs: &RaftSim, cfg: Cfg, ch: &mut Chooser) -> Exec {
    let rec: Rec<Histories> = Rec::new();
    let (end, overflow) = run_with_chooser(&rs.sim, ch, MAX_POINTS, async || {
        let mut sent = 0;
        if cfg.shape == "phased" || cfg.shape == "phased_post" {
            let mut h: Histories = vec![vec![]; N];
            // quiesce (phase barrier) and fold every member's newly committed entries into its history
            let collect = async |h: &mut Histories| {
                hydro_lang::sim::quiesce().await;
                for member in 0..N as u32 {
                    let got: Vec<LogEntry<String>> = rs.committed.collect(member).await;
                    h[member as usize].extend(got.into_iter().map(|e| (e.message, e.term_received, e.index)));
                    let _: Vec<(String, Option<MemberId<Replica>>)> = rs.redirected.collect(member).await;
                }
            };
            rs.election.send(0, ());
            collect(&mut h).await;
            rs.request.send(0, "seed".to_owned());
            let mut seed_pumps = 0;
            while h.iter().any(|x| x.is_empty()) && seed_pumps < 4 {
                seed_pumps += 1;
                rs.heartbeat.send(0, ());
                collect(&mut h).await;
            }
            for round in 0..cfg.elections {
                let challenger = 1 + (round % (N - 1)) as u32;
                rs.election.send(challenger, ());
                rs.request.send(0, format!("racy-{round}"));
                rs.request.send(challenger, format!("challenger-{round}"));
                rs.heartbeat.send(0, ());
                rs.election.send(challenger, ());
                rs.heartbeat.send(0, ());
                collect(&mut h).await;
                for _ in 0..cfg.pumps {
                    for member in 0..N as u32 {
                        rs.heartbeat.send(member, ());
                    }
                    collect(&mut h).await;
                }
                if cfg.shape == "phased_post" {
                    // whoever leads now: one more request for the challenger and for member 0,
                    // replicated by one heartbeat round (a deposed leader just redirects)
                    rs.request.send(challenger, format!("post-challenger-{round}"));
                    rs.request.send(0, format!("post-zero-{round}"));
                    for member in 0..N as u32 {
                        rs.heartbeat.send(member, ());
                    }
                    collect(&mut h).await;
                    for member in 0..N as u32 {
                        rs.heartbeat.send(member, ());
                    }
                    collect(&mut h).await;
                }
            }
            rec.push(h);
            return;
        }
        if cfg.shape == "seeded" {
            rs.election.send(0, ());
            hydro_lang::sim::quiesce().await;
            for wave in 0..cfg.elections {
                for member in 1..N as u32 {
                    rs.election.send(member, ());
                    if sent < cfg.requests {
                        // alternate between the seeded leader and a challenger
                        let to = if sent % 2 == 0 { 0 } else { member };
                        rs.request.send(to, format!("w{wave}m{to}#{sent}"));
                        sent += 1;
                    }
                }
            }
        } else {
            for wave in 0..cfg.elections {
                for member in 0..N as u32 {
                    rs.election.send(member, ());
                    if sent < cfg.requests {
                        rs.request.send(member, format!("w{wave}m{member}"));
                        sent += 1;
                    }
                }
            }
        }
        for _ in 0..cfg.pumps {
            for member in 0..N as u32 {
                rs.heartbeat.send(member, ());
            }
        }
        let mut h: Histories = vec![vec![]; N];
        for member in 0..N as u32 {
            let got: Vec<LogEntry<String>> = rs.committed.collect(member).await;
            h[member as usize] = got.into_iter().map(|e| (e.message, e.term_received, e.index)).collect();
            let _: Vec<(String, Option<MemberId<Replica>>)> = rs.redirected.collect(member).await;
        }
        rec.push(h);
    });
    finish(end, overflow, &rec, |h| Exec::Done { outcome: format!("{h:?}"), verdict: raft_safety(&h), progressed: h.iter().any(|x| !x.is_empty()) })
}

pub struct Sims {
    raft: Option<RaftSim>,
}
impl Sims {
    pub fn new() -> Self {
        Sims { raft: None }
    }
    pub fn run(&mut self, cfg: Cfg, ch: &mut Chooser) -> Exec {
        if self.raft.is_none() {
            self.raft = Some(build_raft());
        }
        run_raft(self.raft.as_ref().unwrap(), cfg, ch)
    }
}

#[derive(Default)]
pub struct Explored {
    pub executions: u64,
    pub discarded: u64,
    pub capped_runs: u64,
    pub committed_some: u64,
    pub max_points: usize,
    pub outcomes: BTreeSet<String>,
    pub violation: Option<(String, String, Vec<usize>)>,
    pub stopped_by_wall: bool,
}
impl Explored {
    fn merge(&mut self, o: Explored) {
        self.executions += o.executions;
        self.discarded += o.discarded;
        self.capped_runs += o.capped_runs;
        self.committed_some += o.committed_some;
        self.max_points = self.max_points.max(o.max_points);
        self.outcomes.extend(o.outcomes);
        if self.violation.is_none() {
            self.violation = o.violation;
        }
        self.stopped_by_wall |= o.stopped_by_wall;
    }
    fn to_json(&self) -> Value {
        json!({"executions": self.executions, "discarded": self.discarded, "capped_runs": self.capped_runs, "committed_some": self.committed_some,
               "max_points": self.max_points, "outcomes": self.outcomes.iter().collect::<Vec<_>>(), "stopped_by_wall": self.stopped_by_wall,
               "violation": self.violation.as_ref().map(|(k, m, d)| json!({"kind": k, "msg": m, "decisions": d}))})
    }
    fn from_json(v: &Value) -> Self {
        Explored {
            executions: v["executions"].as_u64().unwrap_or(0),
            discarded: v["discarded"].as_u64().unwrap_or(0),
            capped_runs: v["capped_runs"].as_u64().unwrap_or(0),
            committed_some: v["committed_some"].as_u64().unwrap_or(0),
            max_points: v["max_points"].as_u64().unwrap_or(0) as usize,
            outcomes: v["outcomes"].as_array().map(|a| a.iter().filter_map(|s| s.as_str().map(String::from)).collect()).unwrap_or_default(),
            stopped_by_wall: v["stopped_by_wall"].as_bool().unwrap_or(false),
            violation: if v["violation"].is_null() {
                None
            } else {
                Some((
                    v["violation"]["kind"].as_str().unwrap_or("").to_string(),
                    v["violation"]["msg"].as_str().unwrap_or("").to_string(),
                    v["violation"]["decisions"].as_array().map(|a| a.iter().map(|x| x.as_u64().unwrap_or(0) as usize).collect()).unwrap_or_default(),
                ))
            },
        }
    }
}

/// Children of an executed prefix: one more non-default decision at any later point, if the
/// deviation budget allows (identical to `vf_explore::explore`).
fn children(ch: &Chooser, plen: usize, bound: usize) -> Vec<Vec<usize>> {
    let choices = ch.choices();
    let mut cost = ch.trace[..plen].iter().filter(|p| p.costly && p.choice != 0).count();
    let mut next = vec![];
    for i in plen..ch.trace.len() {
        let p = ch.trace[i];
        if cost + 1 <= bound {
            for alt in 1..p.n {
                let mut np: Vec<usize> = choices[..i].to_vec();
                np.push(alt);
                next.push(np);
            }
        }
        if p.costly && p.choice != 0 {
            cost += 1;
        }
    }
    next
}

/// Deviation-bounded DFS over the subtrees rooted at `starts` (decision prefixes), with exactly
/// the semantics of `vf_explore::explore`, but resumable from prefixes so subtrees can be sharded.
pub fn explore_from(starts: Vec<Vec<usize>>, bound: usize, deadline: Option<Instant>, mut run: impl FnMut(&mut Chooser) -> Exec) -> Explored {
    let mut out = Explored::default();
    let mut stack: Vec<Vec<usize>> = starts;
    stack.reverse();
    while let Some(prefix) = stack.pop() {
        if let Some(d) = deadline
            && Instant::now() > d
        {
            out.stopped_by_wall = true;
            break;
        }
        let plen = prefix.len();
        let mut ch = Chooser::replay(prefix);
        let ex = run(&mut ch);
        out.executions += 1;
        out.max_points = out.max_points.max(ch.trace.len());
        if ch.trace.len() < plen {
            machinery("execution consumed fewer decisions than its prefix (non-deterministic simulation)");
        }
        match ex {
            Exec::Done { outcome, verdict, progressed } => {
                if progressed {
                    out.committed_some += 1;
                }
                if let Err((kind, msg)) = verdict
                    && out.violation.is_none()
                {
                    out.violation = Some((kind, format!("{msg}; outcome {outcome}"), ch.choices()));
                }
                out.outcomes.insert(outcome);
            }
            Exec::Discarded => out.discarded += 1,
            Exec::Capped => out.capped_runs += 1,
            Exec::Panicked(m) => {
                out.outcomes.insert(format!("panic:{}", m.chars().take(80).collect::<String>()));
                if out.violation.is_none() {
                    out.violation = Some(("panic".into(), format!("execution panicked: {}", m.chars().take(400).collect::<String>()), ch.choices()));
                }
            }
        }
        let mut next = children(&ch, plen, bound);
        next.reverse();
        stack.extend(next);
    }
    out
}

/// (configuration, deviation bound). The bound is per configuration because the number of
/// decisions per run differs; every bound is completed unless a wall cap is reported.
fn configs(thorough: bool) -> Vec<(Cfg, usize)> {
    let c = |shape, elections, requests, pumps| Cfg { proto: "raft", shape, elections, requests, pumps };
    if thorough {
        vec![
            (c("concurrent", 1, 1, 2), 4),
            (c("concurrent", 2, 2, 4), 3),
            (c("seeded", 1, 2, 3), 4),
            (c("seeded", 2, 2, 4), 4),
            (c("phased", 1, 2, 2), 4),
            (c("phased", 2, 4, 3), 3),
        ]
    } else {
        vec![(c("concurrent", 2, 2, 2), 2), (c("seeded", 2, 2, 3), 3), (c("phased", 1, 2, 1), 3), (c("phased", 2, 4, 1), 2)]
    }
}

/// Worker process: explores the shard `index % nshards == shard` of the root's children.
pub fn worker(spec: &str) {
    let v: Value = vf_explore::serde_json::from_str(spec).unwrap_or_else(|e| machinery(&format!("bad worker spec: {e}")));
    let cfg = Cfg::from_json(&v["cfg"]);
    let bound = v["bound"].as_u64().unwrap_or(1) as usize;
    let (shard, nshards) = (v["shard"].as_u64().unwrap_or(0) as usize, v["nshards"].as_u64().unwrap_or(1) as usize);
    let deadline = Instant::now() + Duration::from_secs(v["wall_s"].as_u64().unwrap_or(600));
    let mut sims = Sims::new();
    let mut root = Chooser::replay(vec![]);
    let _ = sims.run(cfg, &mut root);
    let starts: Vec<Vec<usize>> = children(&root, 0, bound).into_iter().enumerate().filter(|(i, _)| i % nshards == shard).map(|(_, p)| p).collect();
    let ex = explore_from(starts, bound, Some(deadline), |ch| sims.run(cfg, ch));
    println!("VF_SIM2_RESULT {}", ex.to_json());
}

fn explore_sharded(cfg: Cfg, bound: usize, nshards: usize, wall_s: u64, root: Explored) -> Explored {
    let exe = std::env::current_exe().unwrap_or_else(|e| machinery(&format!("current_exe: {e}")));
    let mut kids = vec![];
    for shard in 0..nshards {
        let spec = json!({"cfg": cfg.json(), "bound": bound, "shard": shard, "nshards": nshards, "wall_s": wall_s}).to_string();
        let child = std::process::Command::new(&exe)
            .args(["--property", "C40", "--tier", "thorough"])
            .env("VF_SIM2_WORKER", spec)
            .stdout(std::process::Stdio::piped())
            .stderr(std::process::Stdio::null())
            .spawn()
            .unwrap_or_else(|e| machinery(&format!("cannot spawn worker: {e}")));
        kids.push(child);
    }
    let mut total = root;
    for (i, k) in kids.into_iter().enumerate() {
        let out = k.wait_with_output().unwrap_or_else(|e| machinery(&format!("worker {i}: {e}")));
        let txt = String::from_utf8_lossy(&out.stdout);
        let Some(line) = txt.lines().find_map(|l| l.strip_prefix("VF_SIM2_RESULT ")) else {
            machinery(&format!("worker {i} of {} produced no result (status {:?}): {}", cfg.key(), out.status, txt.chars().take(400).collect::<String>()));
        };
        let v: Value = vf_explore::serde_json::from_str(line).unwrap_or_else(|e| machinery(&format!("worker {i}: bad result: {e}")));
        total.merge(Explored::from_json(&v));
    }
    total
}

pub fn run(rep: &mut Report, thorough: bool, replay: Option<Value>) {
    rep.rule = "case = (protocol, body shape, input configuration, simulator decision vector); default decision = first ready tick / release everything; ALL executions with at most `bound` non-default decisions anywhere in the run are enumerated (deviation-bounded DFS through hook H3); distinct = committed histories of all members".into();
    rep.explanation = "exhaustive WITHIN the stated deviation bound (CHESS-style), NOT over all schedules. The repo's Raft wiring and test bodies (3 members, fail-stop TCP; either all timer interrupts / requests / heartbeat pumps up front, or member 0 elected first behind a quiescence barrier and then everything else at once), judged by the repo's own oracle: per member contiguous committed indices from 1, pairwise no fork at any committed position, no panic (raft_step's truncation guard)".into();
    rep.assume("hook H3 (CompiledSim::verif_run_with_driver, cargo feature hydro_verif) replaces only the source of decisions");
    rep.assume("fail-stop network model of the repo's tests; no message loss");
    rep.assume("Paxos is NOT covered: paxos_core cannot be built by the repo's simulator — leader_election takes `.max()` and p_p1b `get_max_key()` of unbounded top-level streams, for which the simulator's code generator stops with todo!(\"Reduce with optional intermediates is not yet supported in simulator\"), and p_leader_heartbeat needs wall-clock sources (sample_every / timeout / source_interval_delayed) that the simulator's timer-less tokio runtime cannot run; the repo has no full-protocol Paxos simulation test either");
    let bound_override: Option<usize> = std::env::var("VF_C40_BOUND").ok().and_then(|s| s.parse().ok());
    rep.bound("raft_members", N);

    let mut sims = Sims::new();

    if let Some(c) = replay {
        let cfg = Cfg::from_json(&c["config"]);
        let dec: Vec<usize> = c["decisions"].as_array().map(|a| a.iter().map(|x| x.as_u64().unwrap_or(0) as usize).collect()).unwrap_or_default();
        let mut ch = Chooser::replay(dec);
        let code = match sims.run(cfg, &mut ch) {
            Exec::Done { outcome, verdict, .. } => {
                println!("replay {}: {outcome}", cfg.key());
                match verdict {
                    Ok(()) => 0,
                    Err((k, m)) => {
                        println!("replay: {k}: {m}");
                        1
                    }
                }
            }
            Exec::Panicked(m) => {
                println!("replay: panicked: {m}");
                1
            }
            Exec::Discarded => {
                println!("replay: instance discarded");
                0
            }
            Exec::Capped => {
                println!("replay: decision cap hit");
                0
            }
        };
        std::process::exit(code);
    }

    let mut cfgs = configs(thorough);
    if let Ok(spec) = std::env::var("VF_C40_CFGS") {
        // experimentation only: "shape:elections:requests:pumps:bound,..."
        cfgs = spec
            .split(',')
            .map(|c| {
                let f: Vec<&str> = c.split(':').collect();
                let shape = Cfg::from_json(&json!({"shape": f[0]})).shape;
                (Cfg { proto: "raft", shape, elections: f[1].parse().unwrap(), requests: f[2].parse().unwrap(), pumps: f[3].parse().unwrap() }, f[4].parse().unwrap())
            })
            .collect();
    }
    rep.bound("deviation_bound_per_config", json!(cfgs.iter().map(|(c, b)| json!([c.key(), bound_override.unwrap_or(*b)])).collect::<Vec<_>>()));
    let wall_per_cfg: u64 = std::env::var("VF_C40_WALL").ok().and_then(|s| s.parse().ok()).unwrap_or(if thorough { 150 } else { 60 });
    rep.bound("wall_cap_s_per_config", wall_per_cfg);
    let nshards = if thorough { vf_explore::ncpu().clamp(1, 12) } else { 1 };
    for (cfg, bound) in cfgs {
        let bound = bound_override.unwrap_or(bound);
        let mut st = Stats::new();
        let t0 = Instant::now();
        // determinism guard: the default execution twice
        let mut c1 = Chooser::replay(vec![]);
        let e1 = sims.run(cfg, &mut c1);
        let mut c2 = Chooser::replay(vec![]);
        let e2 = sims.run(cfg, &mut c2);
        let same = c1.trace == c2.trace
            && match (&e1, &e2) {
                (Exec::Done { outcome: a, .. }, Exec::Done { outcome: b, .. }) => a == b,
                _ => false,
            };
        if !same {
            machinery(&format!("{}: the default execution is not reproducible ({} vs {} decisions)", cfg.key(), c1.trace.len(), c2.trace.len()));
        }
        let deadline = Instant::now() + Duration::from_secs(wall_per_cfg);
        let ex = if nshards > 1 {
            // root execution here, its subtrees in worker processes (simulator instances are !Send)
            let root = explore_from(vec![vec![]], 0, None, |ch| sims.run(cfg, ch));
            explore_sharded(cfg, bound, nshards, wall_per_cfg, root)
        } else {
            explore_from(vec![vec![]], bound, Some(deadline), |ch| sims.run(cfg, ch))
        };
        println!(
            "  [{}] bound={} executions={} discarded={} capped_runs={} committed_something={} distinct_outcomes={} max_decisions={} wall={:.1}s{}",
            cfg.key(),
            bound,
            ex.executions,
            ex.discarded,
            ex.capped_runs,
            ex.committed_some,
            ex.outcomes.len(),
            ex.max_points,
            t0.elapsed().as_secs_f64(),
            if ex.stopped_by_wall { " (WALL CAP)" } else { "" }
        );
        st.evaluations = ex.executions;
        for o in &ex.outcomes {
            st.outcome(&(cfg.proto, o));
            st.nontrivial(&(cfg.key(), o));
        }
        st.sample(|| json!({"config": cfg.json(), "executions": ex.executions, "discarded": ex.discarded, "executions_with_commits": ex.committed_some,
                            "distinct_outcomes": ex.outcomes.len(), "max_decisions": ex.max_points, "one_outcome": ex.outcomes.iter().next_back()}));
        if ex.stopped_by_wall {
            st.cap(format!("{}: wall cap {}s hit after {} executions at bound {}", cfg.key(), wall_per_cfg, ex.executions, bound));
        }
        if ex.capped_runs > 0 {
            st.cap(format!("{}: {} executions exceeded {} decisions", cfg.key(), ex.capped_runs, MAX_POINTS));
        }
        if let Some((kind, msg, dec)) = ex.violation {
            // re-execute once more before reporting
            let mut ch = Chooser::replay(dec.clone());
            let again = match sims.run(cfg, &mut ch) {
                Exec::Done { verdict, .. } => verdict.is_err(),
                Exec::Panicked(_) => true,
                _ => false,
            };
            if !again {
                machinery(&format!("{}: violation did not reproduce for decisions {dec:?}", cfg.key()));
            }
            st.violation(format!("C40|{}|{kind}", cfg.key()), format!("{}: {msg}; decisions {dec:?}", cfg.key()), json!({"config": cfg.json(), "decisions": dec}));
        }
        rep.section(&cfg.key(), st);
    }
}
