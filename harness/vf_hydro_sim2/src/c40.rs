//! C40 — replicated logs never diverge (Raft; Paxos cannot run in the repo's simulator, see the
//! assumptions recorded in `run`), through hook H3 and the deviation-bounded
//! explorer: ALL executions with at most `bound` non-default simulator decisions.
use std::collections::BTreeSet;
use std::time::{Duration, Instant};

use hydro_lang::live_collections::stream::{ExactlyOnce, TotalOrder};
use hydro_lang::location::MemberId;
use hydro_lang::prelude::*;
use hydro_lang::sim::compiled::CompiledSim;
use hydro_lang::sim::{SimClusterReceiver, SimClusterSender};
use hydro_test::cluster::raft::{LogEntry, RaftConfig, Replica, raft};
use vf_explore::{Chooser, Report, Stats, Value, json};

use crate::driver::{RunEnd, run_with_chooser};
use crate::{Rec, machinery};

const N: usize = 3; // Raft members
/// Runaway guard: no execution of these bounded inputs comes near this many decisions.
const MAX_POINTS: usize = 20_000;

#[derive(Clone, Copy, Debug, PartialEq, Eq, Hash)]
pub struct Cfg {
    /// "raft"
    pub proto: &'static str,
    /// "concurrent": every input up front, one final drain (repo: fully_concurrent_run_...);
    /// "seeded": member 0 is elected first behind a quiescence barrier, then everything else at
    /// once;
    /// "phased": the body of the repo's concurrent_elections_never_fork_the_committed_log —
    /// member 0 elected and a seed entry committed in quiescence-separated steps, then
    /// `elections` racy rounds (prime a challenger, then in one burst: a request to member 0, a
    /// request to the challenger, heartbeat, the challenger's election interrupt, heartbeat), each
    /// followed by `pumps` settle rounds of heartbeats to every member (`requests` is unused);
    /// "phased_post": phased, plus after every round one more request to the challenger and to
    /// member 0 with two heartbeat rounds (whoever leads by then appends and replicates);
    /// "dueling": see `run_raft`;
    /// "diverge_LF": a divergent history (two never-replicated entries of different terms) is
    /// built behind barriers under default decisions and only the final unbarriered phase is
    /// explored; here `elections` = back-to-back heartbeat interrupts of the last leader,
    /// `requests` = never-replicated entries on the deposed middle leader; see `run_raft`
    pub shape: &'static str,
    pub elections: usize,
    pub requests: usize,
    pub pumps: usize,
}
impl Cfg {
    fn key(&self) -> String {
        format!("{}|{}|e={}|r={}|p={}", self.proto, self.shape, self.elections, self.requests, self.pumps)
    }
    fn json(&self) -> Value {
        json!({"proto": self.proto, "shape": self.shape, "elections": self.elections, "requests": self.requests, "pumps": self.pumps})
    }
    fn from_json(v: &Value) -> Self {
        Cfg {
            proto: "raft",
            shape: if v["shape"] == "seeded" {
                "seeded"
            } else if v["shape"] == "phased" {
                "phased"
            } else if v["shape"] == "phased_post" {
                "phased_post"
            } else if v["shape"] == "dueling" {
                "dueling"
            } else if v["shape"] == "diverge_20" {
                "diverge_20"
            } else if v["shape"] == "diverge_01" {
                "diverge_01"
            } else if v["shape"] == "diverge_12" {
                "diverge_12"
            } else {
                "concurrent"
            },
            elections: v["elections"].as_u64().unwrap_or(1) as usize,
            requests: v["requests"].as_u64().unwrap_or(1) as usize,
            pumps: v["pumps"].as_u64().unwrap_or(2) as usize,
        }
    }
}

type Entry = (String, usize, usize); // (message, term, index)
type Histories = Vec<Vec<Entry>>;

pub struct RaftSim {
    sim: CompiledSim,
    election: SimClusterSender<(), TotalOrder, ExactlyOnce>,
    heartbeat: SimClusterSender<(), TotalOrder, ExactlyOnce>,
    request: SimClusterSender<String, TotalOrder, ExactlyOnce>,
    committed: SimClusterReceiver<LogEntry<String>, TotalOrder, ExactlyOnce>,
    redirected: SimClusterReceiver<(String, Option<MemberId<Replica>>), TotalOrder, ExactlyOnce>,
}

/// The wiring of the repo's own simulation tests (`fully_concurrent_run_never_forks_...`).
pub fn build_raft() -> RaftSim {
    let mut flow = FlowBuilder::new();
    let cluster = flow.cluster::<Replica>();
    let (election, election_timer_interrupts) = cluster.sim_input();
    let (heartbeat, heartbeat_timer_interrupts) = cluster.sim_input();
    let (request, requests) = cluster.sim_input::<String, _, _>();
    let (committed, redirected) = raft(
        requests,
        election_timer_interrupts,
        heartbeat_timer_interrupts,
        RaftConfig { cluster_size: N },
        || TCP.fail_stop().bincode(),
        nondet!(/** which member leads and how concurrent requests are ordered is non-deterministic */),
    );
    let committed = committed.end_atomic().sim_cluster_output();
    let redirected = redirected.sim_cluster_output();
    let sim = flow.sim().skip_consistency_assertions().with_cluster_size(&cluster, N).compiled();
    RaftSim { sim, election, heartbeat, request, committed, redirected }
}

/// The safety oracle of the repo's own Raft test.
pub fn raft_safety(h: &Histories) -> Result<(), (String, String)> {
    for (m, hist) in h.iter().enumerate() {
        for (pos, e) in hist.iter().enumerate() {
            if e.2 != pos + 1 {
                return Err(("gap".into(), format!("member {m} emitted committed entries out of order or with gaps: {:?}", hist.iter().map(|e| e.2).collect::<Vec<_>>())));
            }
        }
    }
    for a in 0..h.len() {
        for b in a + 1..h.len() {
            for (pos, (x, y)) in h[a].iter().zip(&h[b]).enumerate() {
                if x != y {
                    return Err(("fork".into(), format!("committed logs forked: members {a} and {b} disagree at committed position {pos}: {x:?} vs {y:?}")));
                }
            }
        }
    }
    Ok(())
}

pub enum Exec {
    /// completed: printable outcome (committed histories), safety verdict, whether anything committed
    Done { outcome: String, verdict: Result<(), (String, String)>, progressed: bool },
    Discarded,
    Panicked(String),
    Capped,
}

fn finish<T>(end: RunEnd, overflow: bool, rec: &Rec<T>, done: impl FnOnce(T) -> Exec) -> Exec {
    if overflow {
        return Exec::Capped;
    }
    match end {
        RunEnd::Completed => match rec.take().pop() {
            Some(h) => done(h),
            None => Exec::Panicked("body completed without recording".into()),
        },
        RunEnd::Discarded => Exec::Discarded,
        RunEnd::Panicked(m) => Exec::Panicked(m),
    }
}

pub fn run_raft(rs: &RaftSim, cfg: Cfg, ch: &mut Chooser) -> Exec {
    let rec: Rec<Histories> = Rec::new();
    let (end, overflow) = run_with_chooser(&rs.sim, ch, MAX_POINTS, async || {
        let mut sent = 0;
        if cfg.shape.starts_with("diverge") {
            // Builds a DIVERGENT log history deterministically (quiescence barriers, default
            // decisions, not explored), then explores only the last, unbarriered phase:
            //   L leads term 1, commits x everywhere, appends e but never replicates it;
            //   F wins term 2 (L refuses: its log is longer; O grants), appends `requests`
            //   entries u.. and never replicates them;
            //   L wins term 3 with O's vote while its log [x, e] is already longer than the common
            //   prefix [x], so its first AppendEntries to F (prev = e) is rejected;
            //   last phase: request q at L and `elections` back-to-back heartbeat interrupts at L,
            //   then `pumps` heartbeat rounds.
            let (l, f) = match cfg.shape {
                "diverge_01" => (0u32, 1u32),
                "diverge_12" => (1, 2),
                _ => (2, 0),
            };
            crate::driver::RECORDING.with(|r| r.set(false));
            let mut h: Histories = vec![vec![]; N];
            let collect = async |h: &mut Histories| {
                hydro_lang::sim::quiesce().await;
                for member in 0..N as u32 {
                    let got: Vec<LogEntry<String>> = rs.committed.collect(member).await;
                    h[member as usize].extend(got.into_iter().map(|e| (e.message, e.term_received, e.index)));
                    let _: Vec<(String, Option<MemberId<Replica>>)> = rs.redirected.collect(member).await;
                }
            };
            // an election interrupt is swallowed once if a heartbeat was seen since the last one
            let elect = async |h: &mut Histories, m: u32| {
                rs.election.send(m, ());
                collect(h).await;
                rs.election.send(m, ());
                collect(h).await;
            };
            elect(&mut h, l).await;
            rs.request.send(l, "x".to_owned());
            let mut seed_pumps = 0;
            while h.iter().any(|x| x.is_empty()) && seed_pumps < 4 {
                seed_pumps += 1;
                rs.heartbeat.send(l, ());
                collect(&mut h).await;
            }
            rs.request.send(l, "e".to_owned());
            collect(&mut h).await;
            elect(&mut h, f).await;
            for i in 0..cfg.requests {
                rs.request.send(f, format!("u{i}"));
                collect(&mut h).await;
            }
            elect(&mut h, l).await;
            // ---- explored from here on ----
            crate::driver::RECORDING.with(|r| r.set(true));
            rs.request.send(l, "q".to_owned());
            for _ in 0..cfg.elections {
                rs.heartbeat.send(l, ());
            }
            collect(&mut h).await;
            for _ in 0..cfg.pumps {
                rs.heartbeat.send(l, ());
                collect(&mut h).await;
            }
            rec.push(h);
            return;
        }
        if cfg.shape == "phased" || cfg.shape == "phased_post" {
            let mut h: Histories = vec![vec![]; N];
            // quiesce (phase barrier) and fold every member's newly committed entries into its history
            let collect = async |h: &mut Histories| {
                hydro_lang::sim::quiesce().await;
                for member in 0..N as u32 {
                    let got: Vec<LogEntry<String>> = rs.committed.collect(member).await;
                    h[member as usize].extend(got.into_iter().map(|e| (e.message, e.term_received, e.index)));
                    let _: Vec<(String, Option<MemberId<Replica>>)> = rs.redirected.collect(member).await;
                }
            };
            rs.election.send(0, ());
            collect(&mut h).await;
            rs.request.send(0, "seed".to_owned());
            let mut seed_pumps = 0;
            while h.iter().any(|x| x.is_empty()) && seed_pumps < 4 {
                seed_pumps += 1;
                rs.heartbeat.send(0, ());
                collect(&mut h).await;
            }
            for round in 0..cfg.elections {
                let challenger = 1 + (round % (N - 1)) as u32;
                rs.election.send(challenger, ());
                rs.request.send(0, format!("racy-{round}"));
                rs.request.send(challenger, format!("challenger-{round}"));
                rs.heartbeat.send(0, ());
                rs.election.send(challenger, ());
                rs.heartbeat.send(0, ());
                collect(&mut h).await;
                for _ in 0..cfg.pumps {
                    for member in 0..N as u32 {
                        rs.heartbeat.send(member, ());
                    }
                    collect(&mut h).await;
                }
                if cfg.shape == "phased_post" {
                    // whoever leads now: one more request for the challenger and for member 0,
                    // replicated by one heartbeat round (a deposed leader just redirects)
                    rs.request.send(challenger, format!("post-challenger-{round}"));
                    rs.request.send(0, format!("post-zero-{round}"));
                    for member in 0..N as u32 {
                        rs.heartbeat.send(member, ());
                    }
                    collect(&mut h).await;
                    for member in 0..N as u32 {
                        rs.heartbeat.send(member, ());
                    }
                    collect(&mut h).await;
                }
            }
            rec.push(h);
            return;
        }
        if cfg.shape == "dueling" {
            // every member but member 0 times out at once (cf. the repo's
            // even_cluster_simultaneous_candidates_exactly_one_leader_per_term); after the election
            // settles, `elections` waves of requests to both candidates with heartbeat pumps for all
            for member in 1..N as u32 {
                rs.election.send(member, ());
            }
            hydro_lang::sim::quiesce().await;
            for wave in 0..cfg.elections {
                for member in 1..N as u32 {
                    rs.request.send(member, format!("duel-{wave}-m{member}"));
                }
                for _ in 0..cfg.pumps {
                    for member in 0..N as u32 {
                        rs.heartbeat.send(member, ());
                    }
                }
            }
        } else if cfg.shape == "seeded" {
            rs.election.send(0, ());
            hydro_lang::sim::quiesce().await;
            for wave in 0..cfg.elections {
                for member in 1..N as u32 {
                    rs.election.send(member, ());
                    if sent < cfg.requests {
                        // alternate between the seeded leader and a challenger
                        let to = if sent % 2 == 0 { 0 } else { member };
                        rs.request.send(to, format!("w{wave}m{to}#{sent}"));
                        sent += 1;
                    }
                }
            }
        } else {
            for wave in 0..cfg.elections {
                for member in 0..N as u32 {
                    rs.election.send(member, ());
                    if sent < cfg.requests {
                        rs.request.send(member, format!("w{wave}m{member}"));
                        sent += 1;
                    }
                }
            }
        }
        if cfg.shape != "dueling" {
            for _ in 0..cfg.pumps {
                for member in 0..N as u32 {
                    rs.heartbeat.send(member, ());
                }
            }
        }
        let mut h: Histories = vec![vec![]; N];
        for member in 0..N as u32 {
            let got: Vec<LogEntry<String>> = rs.committed.collect(member).await;
            h[member as usize] = got.into_iter().map(|e| (e.message, e.term_received, e.index)).collect();
            let _: Vec<(String, Option<MemberId<Replica>>)> = rs.redirected.collect(member).await;
        }
        rec.push(h);
    });
    finish(end, overflow, &rec, |h| Exec::Done { outcome: format!("{h:?}"), verdict: raft_safety(&h), progressed: h.iter().any(|x| !x.is_empty()) })
}

pub struct Sims {
    raft: Option<RaftSim>,
}
impl Sims {
    pub fn new() -> Self {
        Sims { raft: None }
    }
    pub fn run(&mut self, cfg: Cfg, ch: &mut Chooser) -> Exec {
        if self.raft.is_none() {
            self.raft = Some(build_raft());
        }
        run_raft(self.raft.as_ref().unwrap(), cfg, ch)
    }
}

#[derive(Default)]
pub struct Explored {
    pub executions: u64,
    pub discarded: u64,
    pub capped_runs: u64,
    pub committed_some: u64,
    pub max_points: usize,
    pub outcomes: BTreeSet<String>,
    pub violation: Option<(String, String, Vec<usize>)>,
    pub stopped_by_wall: bool,
}
impl Explored {
    fn merge(&mut self, o: Explored) {
        self.executions += o.executions;
        self.discarded += o.discarded;
        self.capped_runs += o.capped_runs;
        self.committed_some += o.committed_some;
        self.max_points = self.max_points.max(o.max_points);
        self.outcomes.extend(o.outcomes);
        if self.violation.is_none() {
            self.violation = o.violation;
        }
        self.stopped_by_wall |= o.stopped_by_wall;
    }
    fn to_json(&self) -> Value {
        json!({"executions": self.executions, "discarded": self.discarded, "capped_runs": self.capped_runs, "committed_some": self.committed_some,
               "max_points": self.max_points, "outcomes": self.outcomes.iter().collect::<Vec<_>>(), "stopped_by_wall": self.stopped_by_wall,
               "violation": self.violation.as_ref().map(|(k, m, d)| json!({"kind": k, "msg": m, "decisions": d}))})
    }
    fn from_json(v: &Value) -> Self {
        Explored {
            executions: v["executions"].as_u64().unwrap_or(0),
            discarded: v["discarded"].as_u64().unwrap_or(0),
            capped_runs: v["capped_runs"].as_u64().unwrap_or(0),
            committed_some: v["committed_some"].as_u64().unwrap_or(0),
            max_points: v["max_points"].as_u64().unwrap_or(0) as usize,
            outcomes: v["outcomes"].as_array().map(|a| a.iter().filter_map(|s| s.as_str().map(String::from)).collect()).unwrap_or_default(),
            stopped_by_wall: v["stopped_by_wall"].as_bool().unwrap_or(false),
            violation: if v["violation"].is_null() {
                None
            } else {
                Some((
                    v["violation"]["kind"].as_str().unwrap_or("").to_string(),
                    v["violation"]["msg"].as_str().unwrap_or("").to_string(),
                    v["violation"]["decisions"].as_array().map(|a| a.iter().map(|x| x.as_u64().unwrap_or(0) as usize).collect()).unwrap_or_default(),
                ))
            },
        }
    }
}

/// Children of an executed prefix: one more non-default decision at any later point, if the
/// deviation budget allows (identical to `vf_explore::explore`).
fn children(ch: &Chooser, plen: usize, bound: usize) -> Vec<Vec<usize>> {
    let choices = ch.choices();
    let mut cost = ch.trace[..plen].iter().filter(|p| p.costly && p.choice != 0).count();
    let mut next = vec![];
    for i in plen..ch.trace.len() {
        let p = ch.trace[i];
        if cost + 1 <= bound {
            for alt in 1..p.n {
                let mut np: Vec<usize> = choices[..i].to_vec();
                np.push(alt);
                next.push(np);
            }
        }
        if p.costly && p.choice != 0 {
            cost += 1;
        }
    }
    next
}

/// Deviation-bounded DFS over the subtrees rooted at `starts` (decision prefixes), with exactly
/// the semantics of `vf_explore::explore`, but resumable from prefixes so subtrees can be sharded.
pub fn explore_from(
    starts: Vec<Vec<usize>>,
    bound: usize,
    deadline: Option<Instant>,
    mut before: impl FnMut(&[usize], u64),
    mut run: impl FnMut(&mut Chooser) -> Exec,
) -> Explored {
    let mut out = Explored::default();
    let mut stack: Vec<Vec<usize>> = starts;
    stack.reverse();
    while let Some(prefix) = stack.pop() {
        if let Some(d) = deadline
            && Instant::now() > d
        {
            out.stopped_by_wall = true;
            break;
        }
        let plen = prefix.len();
        before(&prefix, out.executions);
        let mut ch = Chooser::replay(prefix);
        let ex = run(&mut ch);
        out.executions += 1;
        out.max_points = out.max_points.max(ch.trace.len());
        if ch.trace.len() < plen {
            machinery("execution consumed fewer decisions than its prefix (non-deterministic simulation)");
        }
        match ex {
            Exec::Done { outcome, verdict, progressed } => {
                if progressed {
                    out.committed_some += 1;
                }
                if let Err((kind, msg)) = verdict
                    && out.violation.is_none()
                {
                    out.violation = Some((kind, format!("{msg}; outcome {outcome}"), ch.choices()));
                }
                out.outcomes.insert(outcome);
            }
            Exec::Discarded => out.discarded += 1,
            Exec::Capped => out.capped_runs += 1,
            Exec::Panicked(m) => {
                out.outcomes.insert(format!("panic:{}", m.chars().take(80).collect::<String>()));
                if out.violation.is_none() {
                    out.violation = Some(("panic".into(), format!("execution panicked: {}", m.chars().take(400).collect::<String>()), ch.choices()));
                }
            }
        }
        let mut next = children(&ch, plen, bound);
        next.reverse();
        stack.extend(next);
    }
    out
}

/// (configuration, deviation bound). The bound is per configuration because the number of
/// decisions per run differs; every bound is completed unless a wall cap is reported.
fn configs(thorough: bool) -> Vec<(Cfg, usize)> {
    let c = |shape, elections, requests, pumps| Cfg { proto: "raft", shape, elections, requests, pumps };
    if thorough {
        vec![
            (c("concurrent", 2, 2, 4), 3),
            (c("seeded", 2, 2, 4), 4),
            (c("dueling", 2, 0, 2), 3),
            (c("phased", 2, 0, 1), 3),
            (c("phased", 3, 0, 1), 2),
            (c("phased_post", 1, 0, 1), 3),
            (c("phased_post", 2, 0, 2), 2),
            (c("diverge_20", 2, 1, 3), 3),
            (c("diverge_01", 2, 2, 3), 3),
            (c("diverge_12", 3, 1, 3), 3),
        ]
    } else {
        vec![
            (c("concurrent", 2, 2, 2), 2),
            (c("seeded", 2, 2, 3), 3),
            (c("dueling", 1, 0, 2), 2),
            (c("phased", 2, 0, 1), 2),
            (c("phased_post", 1, 0, 1), 2),
            (c("diverge_20", 2, 1, 3), 2),
            (c("diverge_01", 2, 2, 3), 2),
            (c("diverge_12", 3, 1, 3), 2),
        ]
    }
}

/// A panic inside the simulated program (the dylib: e.g. raft_step's "protocol violation"
/// guards) cannot be caught across the dylib boundary — the process aborts. Every simulation
/// therefore runs in a worker process; before each execution the worker records the decision
/// prefix it is about to run, so the parent can report the aborting execution as a violation.
fn cur_path(tag: &str) -> std::path::PathBuf {
    let dir = std::path::Path::new(env!("CARGO_MANIFEST_DIR")).join("target").join("vf_c40");
    let _ = std::fs::create_dir_all(&dir);
    dir.join(format!("{tag}.cur"))
}

/// Worker process entry (`VF_SIM2_WORKER` holds the JSON spec). One worker serves every
/// configuration of the run (the simulator is compiled/loaded once per worker) and prints one
/// `VF_SIM2_RESULT` line per configuration.
pub fn worker(spec: &str) {
    let v: Value = vf_explore::serde_json::from_str(spec).unwrap_or_else(|e| machinery(&format!("bad worker spec: {e}")));
    let cur = cur_path(v["tag"].as_str().unwrap_or("x"));
    let kind = v["kind"].as_str().unwrap_or("").to_string();
    let mut sims = Sims::new();
    for (idx, job) in v["jobs"].as_array().cloned().unwrap_or_default().iter().enumerate() {
        let cfg = Cfg::from_json(&job["cfg"]);
        let note = |prefix: &[usize], n: u64| {
            let _ = std::fs::write(&cur, json!({"job": idx, "decisions": prefix, "executed": n}).to_string());
        };
        match kind.as_str() {
            "root" => {
                // the default execution, twice: determinism guard + the root of the search tree
                note(&[], 0);
                let mut c1 = Chooser::replay(vec![]);
                let e1 = sims.run(cfg, &mut c1);
                let mut c2 = Chooser::replay(vec![]);
                let e2 = sims.run(cfg, &mut c2);
                let same = c1.trace == c2.trace
                    && match (&e1, &e2) {
                        (Exec::Done { outcome: a, .. }, Exec::Done { outcome: b, .. }) => a == b,
                        _ => false,
                    };
                let ex = explore_from(vec![vec![]], 0, None, &note, |ch| sims.run(cfg, ch));
                println!("VF_SIM2_RESULT {}", json!({"job": idx, "same": same, "points": c1.trace.len(), "explored": ex.to_json()}));
            }
            "replay" => {
                let dec: Vec<usize> = job["decisions"].as_array().map(|a| a.iter().map(|x| x.as_u64().unwrap_or(0) as usize).collect()).unwrap_or_default();
                let ex = explore_from(vec![dec], 0, None, &note, |ch| sims.run(cfg, ch));
                println!("VF_SIM2_RESULT {}", json!({"job": idx, "explored": ex.to_json()}));
            }
            _ => {
                let bound = job["bound"].as_u64().unwrap_or(1) as usize;
                let (shard, nshards) = (v["shard"].as_u64().unwrap_or(0) as usize, v["nshards"].as_u64().unwrap_or(1) as usize);
                note(&[], 0);
                let mut root = Chooser::replay(vec![]);
                let _ = sims.run(cfg, &mut root);
                let deadline = Instant::now() + Duration::from_secs(v["wall_s"].as_u64().unwrap_or(600));
                let starts: Vec<Vec<usize>> = children(&root, 0, bound).into_iter().enumerate().filter(|(i, _)| i % nshards == shard).map(|(_, p)| p).collect();
                let ex = explore_from(starts, bound, Some(deadline), &note, |ch| sims.run(cfg, ch));
                println!("VF_SIM2_RESULT {}", json!({"job": idx, "explored": ex.to_json()}));
            }
        }
    }
    let _ = std::fs::remove_file(&cur);
}

/// What a worker left behind: its per-job results and, if the process died (abort inside the
/// simulated program), the job and decision prefix it was running plus the message on stderr.
struct WorkerEnd {
    results: Vec<Value>,
    crash: Option<Crash>,
}
struct Crash {
    job: usize,
    decisions: Vec<usize>,
    executed: u64,
    message: String,
}

fn spawn_worker(mut spec: Value, tag: &str) -> std::process::Child {
    let exe = std::env::current_exe().unwrap_or_else(|e| machinery(&format!("current_exe: {e}")));
    spec["tag"] = json!(tag);
    let _ = std::fs::remove_file(cur_path(tag));
    std::process::Command::new(&exe)
        .args(["--property", "C40", "--tier", "quick"])
        .env("VF_SIM2_WORKER", spec.to_string())
        .env("RUST_BACKTRACE", "0")
        .stdout(std::process::Stdio::piped())
        .stderr(std::process::Stdio::piped())
        .spawn()
        .unwrap_or_else(|e| machinery(&format!("cannot spawn worker: {e}")))
}

fn wait_worker(child: std::process::Child, tag: &str) -> WorkerEnd {
    let out = child.wait_with_output().unwrap_or_else(|e| machinery(&format!("worker {tag}: {e}")));
    let txt = String::from_utf8_lossy(&out.stdout);
    let err = String::from_utf8_lossy(&out.stderr);
    if let Some(l) = txt.lines().chain(err.lines()).find(|l| l.starts_with("MACHINERY-ERROR")) {
        machinery(&format!("worker {tag}: {l}"));
    }
    let results: Vec<Value> = txt
        .lines()
        .filter_map(|l| l.strip_prefix("VF_SIM2_RESULT "))
        .map(|l| vf_explore::serde_json::from_str(l).unwrap_or_else(|e| machinery(&format!("worker {tag}: bad result: {e}"))))
        .collect();
    if out.status.success() {
        return WorkerEnd { results, crash: None };
    }
    let cur = std::fs::read_to_string(cur_path(tag)).ok().and_then(|t| vf_explore::serde_json::from_str::<Value>(&t).ok());
    let Some(cur) = cur else {
        machinery(&format!("worker {tag} died (status {:?}) before its first execution: {}", out.status, err.chars().take(600).collect::<String>()));
    };
    // the panic message: the line after "... panicked at <location>:"
    let lines: Vec<&str> = err.lines().collect();
    let message = lines
        .iter()
        .position(|l| l.contains("panicked at"))
        .map(|i| format!("{} {}", lines[i].trim(), lines.get(i + 1).map(|s| s.trim()).unwrap_or("")))
        .unwrap_or_else(|| format!("process ended with {:?}: {}", out.status, err.chars().take(300).collect::<String>()));
    WorkerEnd {
        results,
        crash: Some(Crash {
            job: cur["job"].as_u64().unwrap_or(0) as usize,
            decisions: cur["decisions"].as_array().map(|a| a.iter().map(|x| x.as_u64().unwrap_or(0) as usize).collect()).unwrap_or_default(),
            executed: cur["executed"].as_u64().unwrap_or(0),
            message,
        }),
    }
}

/// Location-independent part of a panic message (stable violation key material).
fn stable(msg: &str) -> String {
    msg.rsplit(": ").next().unwrap_or(msg).chars().filter(|c| !c.is_ascii_digit()).take(60).collect::<String>().trim().to_string()
}

/// Per-job accumulation of everything the workers report.
struct Acc {
    ex: Explored,
    aborted: u64,
    /// jobs a crashed worker never got to (its shard of them is unexplored)
    lost_shards: u64,
    same: bool,
}

fn absorb(acc: &mut [Acc], end: WorkerEnd) {
    let mut seen = vec![false; acc.len()];
    for r in end.results {
        let j = r["job"].as_u64().unwrap_or(0) as usize;
        if j < acc.len() {
            seen[j] = true;
            acc[j].ex.merge(Explored::from_json(&r["explored"]));
            if r.get("same").is_some() && r["same"] != true {
                acc[j].same = false;
            }
        }
    }
    if let Some(c) = end.crash {
        if c.job < acc.len() {
            let a = &mut acc[c.job];
            a.aborted += 1;
            a.ex.executions += c.executed + 1;
            a.ex.outcomes.insert(format!("abort:{}", stable(&c.message)));
            if a.ex.violation.is_none() {
                a.ex.violation = Some(("abort".into(), format!("the simulated program aborted: {}", c.message), c.decisions));
            }
            for (j, a) in acc.iter_mut().enumerate() {
                if j > c.job && !seen[j] {
                    a.lost_shards += 1;
                }
            }
        }
    }
}

pub fn run(rep: &mut Report, thorough: bool, replay: Option<Value>) {
    rep.rule = "case = (body shape, input configuration, simulator decision vector); default decision = first ready tick / release everything; ALL executions with at most `bound` non-default decisions anywhere in the run are enumerated (deviation-bounded DFS through hook H3); distinct = committed histories of all members".into();
    rep.explanation = "exhaustive WITHIN the stated deviation bound (CHESS-style), NOT over all schedules. The repo's Raft wiring and the bodies of its own simulation tests (3 members, fail-stop TCP), judged by the repo's own oracle: per member contiguous committed indices from 1, pairwise no fork at any committed position, and no panic/abort (raft_step's own protocol-violation guards: truncation of a committed entry, two leaders in one term)".into();
    rep.assume("hook H3 (CompiledSim::verif_run_with_driver, cargo feature hydro_verif) replaces only the source of decisions");
    rep.assume("fail-stop network model of the repo's tests; no message loss");
    rep.assume("Paxos is NOT covered: paxos_core cannot be built by the repo's simulator — leader_election takes `.max()` and p_p1b `get_max_key()` of unbounded top-level streams, for which the simulator's code generator stops with todo!(\"Reduce with optional intermediates is not yet supported in simulator\"), and p_leader_heartbeat needs wall-clock sources (sample_every / timeout / source_interval_delayed) that the simulator's timer-less tokio runtime cannot run; the repo has no full-protocol Paxos simulation test either");
    let bound_override: Option<usize> = std::env::var("VF_C40_BOUND").ok().and_then(|s| s.parse().ok());
    rep.bound("raft_members", N);
    let pid = std::process::id();

    if let Some(c) = replay {
        let cfg = Cfg::from_json(&c["config"]);
        let tag = format!("{pid}-replay");
        let end = wait_worker(spawn_worker(json!({"kind": "replay", "jobs": [{"cfg": cfg.json(), "decisions": c["decisions"]}]}), &tag), &tag);
        let mut acc = vec![Acc { ex: Explored::default(), aborted: 0, lost_shards: 0, same: true }];
        absorb(&mut acc, end);
        println!("replay {}: outcomes {:?}", cfg.key(), acc[0].ex.outcomes);
        if let Some((k, m, _)) = &acc[0].ex.violation {
            println!("replay: {k}: {m}");
        }
        std::process::exit(if acc[0].ex.violation.is_some() { 1 } else { 0 });
    }

    let mut cfgs = configs(thorough);
    if let Ok(spec) = std::env::var("VF_C40_CFGS") {
        // experimentation only: "shape:elections:requests:pumps:bound,..."
        cfgs = spec
            .split(',')
            .map(|c| {
                let f: Vec<&str> = c.split(':').collect();
                let shape = Cfg::from_json(&json!({"shape": f[0]})).shape;
                (Cfg { proto: "raft", shape, elections: f[1].parse().unwrap(), requests: f[2].parse().unwrap(), pumps: f[3].parse().unwrap() }, f[4].parse().unwrap())
            })
            .collect();
    }
    let cfgs: Vec<(Cfg, usize)> = cfgs.into_iter().map(|(c, b)| (c, bound_override.unwrap_or(b))).collect();
    rep.bound("deviation_bound_per_config", json!(cfgs.iter().map(|(c, b)| json!([c.key(), b])).collect::<Vec<_>>()));
    let wall_per_cfg: u64 = std::env::var("VF_C40_WALL").ok().and_then(|s| s.parse().ok()).unwrap_or(if thorough { 200 } else { 40 });
    rep.bound("wall_cap_s_per_config", wall_per_cfg);
    let nshards = if thorough { vf_explore::ncpu().clamp(1, 12) } else { vf_explore::ncpu().clamp(1, 4) };
    rep.bound("worker_processes", nshards);

    let jobs: Vec<Value> = cfgs.iter().map(|(c, b)| json!({"cfg": c.json(), "bound": b})).collect();
    let mut acc: Vec<Acc> = cfgs.iter().map(|_| Acc { ex: Explored::default(), aborted: 0, lost_shards: 0, same: true }).collect();
    let t0 = Instant::now();
    // root worker: compiles the simulator once, runs every configuration's default execution twice
    let tag = format!("{pid}-root");
    absorb(&mut acc, wait_worker(spawn_worker(json!({"kind": "root", "jobs": jobs}), &tag), &tag));
    for (a, (cfg, _)) in acc.iter().zip(&cfgs) {
        if !a.same {
            machinery(&format!("{}: the default execution is not reproducible", cfg.key()));
        }
    }
    println!("  root executions done after {:.1}s; starting {nshards} shard workers", t0.elapsed().as_secs_f64());
    if acc.iter().all(|a| a.aborted == 0) {
        let kids: Vec<(String, std::process::Child)> = (0..nshards)
            .map(|shard| {
                let tag = format!("{pid}-{shard}");
                let child = spawn_worker(json!({"kind": "shard", "jobs": jobs, "shard": shard, "nshards": nshards, "wall_s": wall_per_cfg}), &tag);
                (tag, child)
            })
            .collect();
        for (tag, child) in kids {
            absorb(&mut acc, wait_worker(child, &tag));
        }
    }
    for (a, (cfg, bound)) in acc.into_iter().zip(cfgs) {
        let (ex, aborted) = (a.ex, a.aborted);
        let mut st = Stats::new();
        println!(
            "  [{}] bound={} executions={} discarded={} capped_runs={} aborted_workers={} committed_something={} distinct_outcomes={} max_decisions={}{}",
            cfg.key(),
            bound,
            ex.executions,
            ex.discarded,
            ex.capped_runs,
            aborted,
            ex.committed_some,
            ex.outcomes.len(),
            ex.max_points,
            if ex.stopped_by_wall { " (WALL CAP)" } else { "" }
        );
        st.evaluations = ex.executions;
        for o in &ex.outcomes {
            st.outcome(&(cfg.proto, o));
            st.nontrivial(&(cfg.key(), o));
        }
        st.sample(|| json!({"config": cfg.json(), "bound": bound, "executions": ex.executions, "discarded": ex.discarded, "executions_with_commits": ex.committed_some,
                            "distinct_outcomes": ex.outcomes.len(), "max_decisions": ex.max_points, "one_outcome": ex.outcomes.iter().next_back()}));
        if ex.stopped_by_wall {
            st.cap(format!("{}: wall cap {}s hit after {} executions at bound {}", cfg.key(), wall_per_cfg, ex.executions, bound));
        }
        if ex.capped_runs > 0 {
            st.cap(format!("{}: {} executions exceeded {} decisions", cfg.key(), ex.capped_runs, MAX_POINTS));
        }
        if aborted > 0 || a.lost_shards > 0 {
            st.cap(format!("{}: {} worker(s) aborted, {} shard(s) left unexplored", cfg.key(), aborted, a.lost_shards));
        }
        if let Some((kind, msg, dec)) = ex.violation.clone() {
            // re-execute once more (in a fresh process) before reporting
            let tag = format!("{pid}-recheck");
            let mut again = vec![Acc { ex: Explored::default(), aborted: 0, lost_shards: 0, same: true }];
            absorb(&mut again, wait_worker(spawn_worker(json!({"kind": "replay", "jobs": [{"cfg": cfg.json(), "decisions": dec}]}), &tag), &tag));
            if again[0].ex.violation.as_ref().map(|v| &v.0) != Some(&kind) {
                machinery(&format!("{}: violation ({kind}) did not reproduce for decisions {dec:?}", cfg.key()));
            }
            let class = if kind == "abort" { format!("abort:{}", stable(&msg)) } else { kind.clone() };
            st.violation(format!("C40|{}|{class}", cfg.key()), format!("{}: {msg}; decisions {dec:?}", cfg.key()), json!({"config": cfg.json(), "decisions": dec}));
        }
        rep.section(&cfg.key(), st);
    }
    println!("  total wall {:.1}s", t0.elapsed().as_secs_f64());
}
