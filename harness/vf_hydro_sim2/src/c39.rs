//! C39 — quorum helpers (`collect_quorum`, `collect_quorum_with_response`) and `join_responses`.
use std::collections::BTreeSet;

use hydro_lang::live_collections::stream::{ExactlyOnce, NoOrder, Ordering, TotalOrder};
use hydro_lang::prelude::*;
use hydro_lang::sim::{SimReceiver, SimSender};
use hydro_std::quorum::{collect_quorum, collect_quorum_with_response};
use hydro_std::request_response::join_responses;
use vf_explore::{Report, Stats, Value, combi, json};

use crate::{Rec, exhaustive, machinery};

type In0 = (u32, Result<(), u32>);
type InR = (u32, Result<u32, u32>);

struct QProg<O: Ordering> {
    min: usize,
    max: usize,
    tx: SimSender<In0, O, ExactlyOnce>,
    ok: SimReceiver<u32, NoOrder, ExactlyOnce>,
    err: SimReceiver<(u32, u32), O, ExactlyOnce>,
}
struct QrProg<O: Ordering> {
    min: usize,
    max: usize,
    tx: SimSender<InR, O, ExactlyOnce>,
    ok: SimReceiver<(u32, u32), O, ExactlyOnce>,
    err: SimReceiver<(u32, u32), O, ExactlyOnce>,
}

/// One response: (key, is_ok); its id is its 1-based position in the sequence.
type Seq = Vec<(u32, bool)>;

fn sequences(max_len: usize, max_per_key: usize) -> Vec<Seq> {
    let alphabet = [(1u32, true), (1, false), (2, true), (2, false)];
    combi::sequences_upto(&alphabet, max_len)
        .into_iter()
        .filter(|s| !s.is_empty())
        // precondition of the helpers: at most `max` responses arrive per key
        .filter(|s| [1u32, 2].iter().all(|k| s.iter().filter(|(kk, _)| kk == k).count() <= max_per_key))
        .collect()
}

#[derive(Clone, Debug, Hash, PartialEq, Eq, PartialOrd, Ord)]
struct Obs {
    /// collect_quorum: reported keys (sorted); with_response: emitted (key, id) in emission order
    ok: Vec<(u32, u32)>,
    err: Vec<(u32, u32)>,
}

fn expected_errs(seq: &Seq) -> Vec<(u32, u32)> {
    seq.iter().enumerate().filter(|(_, (_, ok))| !ok).map(|(i, (k, _))| (*k, i as u32 + 1)).collect()
}

fn check_errs(seq: &Seq, obs: &Obs, ordered: bool) -> Result<(), String> {
    let mut exp = expected_errs(seq);
    let mut got = obs.err.clone();
    if !ordered {
        exp.sort();
        got.sort();
    }
    if exp != got {
        return Err(format!("errors: passed through {got:?}, the input's Err responses are {exp:?}"));
    }
    Ok(())
}

fn oracle_quorum(seq: &Seq, min: usize, obs: &Obs, ordered: bool) -> Result<(), String> {
    let mut exp = vec![];
    for k in [1u32, 2] {
        if seq.iter().filter(|(kk, ok)| *kk == k && *ok).count() >= min {
            exp.push((k, 0));
        }
    }
    let mut got = obs.ok.clone();
    got.sort();
    if got != exp {
        return Err(format!(
            "quorum: reported keys {:?}, reference (keys with >= {min} Ok responses) {:?}",
            got.iter().map(|x| x.0).collect::<Vec<_>>(),
            exp.iter().map(|x| x.0).collect::<Vec<_>>()
        ));
    }
    check_errs(seq, obs, ordered)
}

fn oracle_with_response(seq: &Seq, min: usize, obs: &Obs, ordered: bool) -> Result<(), String> {
    for k in [1u32, 2] {
        let oks: Vec<u32> = seq.iter().enumerate().filter(|(_, (kk, ok))| *kk == k && *ok).map(|(i, _)| i as u32 + 1).collect();
        let got: Vec<u32> = obs.ok.iter().filter(|(kk, _)| *kk == k).map(|(_, id)| *id).collect();
        if oks.len() < min {
            if !got.is_empty() {
                return Err(format!("quorum: key {k} emitted {got:?} with only {} Ok responses (< {min})", oks.len()));
            }
            continue;
        }
        let set: BTreeSet<u32> = got.iter().copied().collect();
        if set.len() != got.len() {
            return Err(format!("once: key {k} emitted a response twice: {got:?}"));
        }
        if got.len() < min {
            return Err(format!("quorum: key {k} reached quorum ({} Ok) but only {got:?} was emitted", oks.len()));
        }
        if ordered {
            if got[..] != oks[..got.len().min(oks.len())] || got.len() > oks.len() {
                return Err(format!("order: key {k} emitted {got:?}, not a prefix of its Ok responses {oks:?}"));
            }
        } else if !set.iter().all(|id| oks.contains(id)) {
            return Err(format!("quorum: key {k} emitted {got:?}, its Ok responses are {oks:?}"));
        }
    }
    if obs.ok.iter().any(|(k, _)| *k != 1 && *k != 2) {
        return Err("quorum: unknown key emitted".into());
    }
    check_errs(seq, obs, ordered)
}

fn class(msg: &str) -> &str {
    msg.split(':').next().unwrap_or(msg)
}

struct Judge<'a> {
    st: &'a mut Stats,
    /// inputs whose full outputs differ across batchings (informational for `_with_response`)
    batching_dependent: usize,
    inputs: usize,
}

impl Judge<'_> {
    #[expect(clippy::too_many_arguments, reason = "internal")]
    fn case(
        &mut self,
        prog: &str,
        min: usize,
        max: usize,
        ordered: bool,
        seq: &Seq,
        with_response: bool,
        run: &mut dyn FnMut() -> (Result<usize, String>, Vec<Obs>),
    ) {
        let key = format!("{prog}|min={min}|max={max}|{}|{}", if ordered { "TotalOrder" } else { "NoOrder" }, seq_str(seq));
        let eval = |res: &Result<usize, String>, obs: &[Obs]| -> Vec<(String, String, Value)> {
            let mut v = vec![];
            let case = json!({"kind": "quorum", "prog": prog, "min": min, "max": max, "ordered": ordered,
                              "seq": seq.iter().map(|(k, ok)| json!([k, ok])).collect::<Vec<_>>()});
            if let Err(p) = res {
                v.push((format!("C39|{key}|panic"), format!("{key}: simulation panicked: {}", p.chars().take(300).collect::<String>()), case.clone()));
            }
            for o in obs {
                let r = if with_response { oracle_with_response(seq, min, o, ordered) } else { oracle_quorum(seq, min, o, ordered) };
                if let Err(m) = r {
                    v.push((format!("C39|{key}|{}", class(&m)), format!("{key}: {m}; observed {o:?}"), case.clone()));
                }
            }
            v
        };
        let (res, obs) = run();
        if let Ok(c) = &res
            && *c != obs.len()
        {
            machinery(&format!("{key}: {c} instances but {} recorded executions", obs.len()));
        }
        self.inputs += 1;
        let distinct: BTreeSet<Obs> = obs
            .iter()
            .map(|o| {
                let mut o = o.clone();
                o.ok.sort();
                if !ordered {
                    o.err.sort();
                }
                o
            })
            .collect();
        if distinct.len() > 1 {
            self.batching_dependent += 1;
        }
        for o in &obs {
            self.st.eval();
            self.st.outcome(&(prog, min, max, o));
        }
        self.st.nontrivial(&key);
        self.st.sample(|| json!({"case": key, "executions": obs.len(), "distinct_outputs": distinct.len(), "first": format!("{:?}", obs.first())}));
        let viol = eval(&res, &obs);
        if !viol.is_empty() {
            let (res2, obs2) = run();
            let k1: BTreeSet<_> = viol.iter().map(|v| v.0.clone()).collect();
            let k2: BTreeSet<_> = eval(&res2, &obs2).iter().map(|v| v.0.clone()).collect();
            if k1 != k2 {
                machinery(&format!("{key}: violation did not reproduce ({k1:?} vs {k2:?})"));
            }
            for (k, w, r) in viol {
                self.st.violation(k, w, r);
            }
        }
    }
}

fn seq_str(seq: &Seq) -> String {
    seq.iter().map(|(k, ok)| format!("{k}{}", if *ok { "+" } else { "-" })).collect::<Vec<_>>().join(",")
}

fn seq_from_json(v: &Value) -> Seq {
    v.as_array()
        .map(|a| a.iter().map(|p| (p[0].as_u64().unwrap_or(0) as u32, p[1].as_bool().unwrap_or(false))).collect())
        .unwrap_or_default()
}

#[derive(Clone, Copy, Debug, PartialEq, Eq, Hash)]
enum Ev {
    Meta(u32),
    Resp(u32),
    /// second response for a key whose first response has been observed joined (repo test 4)
    Dup(u32),
}

fn join_scenarios(max_resp: usize) -> Vec<Vec<Ev>> {
    let mut out = vec![];
    for metas in combi::subsets(&[1u32, 2]) {
        for resps in combi::subsets(&[1u32, 2, 3]) {
            if resps.len() > max_resp || metas.len() + resps.len() == 0 {
                continue;
            }
            let evs: Vec<Ev> = metas.iter().map(|k| Ev::Meta(*k)).chain(resps.iter().map(|k| Ev::Resp(*k))).collect();
            for p in combi::permutations(&evs) {
                // precondition: a response never precedes the metadata of its own request
                let ok = p.iter().enumerate().all(|(i, e)| match e {
                    Ev::Resp(k) if metas.contains(k) => p[..i].contains(&Ev::Meta(*k)),
                    _ => true,
                });
                if ok {
                    out.push(p);
                }
            }
        }
    }
    // metadata consumed by its response: a later duplicate response must not be matched again
    out.push(vec![Ev::Meta(1), Ev::Resp(1), Ev::Dup(1)]);
    out.push(vec![Ev::Meta(1), Ev::Meta(2), Ev::Resp(2), Ev::Dup(2), Ev::Resp(1)]);
    out
}

pub fn run(rep: &mut Report, thorough: bool, replay: Option<Value>) {
    rep.rule = "case = (helper, min, max, input ordering, response sequence over keys {1,2} x {Ok,Err} with at most `max` responses per key) resp. (event order of metadata/response sends for join_responses); for each case the repo's exhaustive simulator search enumerates every batching (and every NoOrder release subset)".into();
    rep.explanation = "collect_quorum: reported keys == keys whose Ok count reaches min, each exactly once, in every batching; collect_quorum_with_response: a key emits iff it reaches min, never a response twice, at least min responses, a prefix of its Ok responses for ordered input; every Err passed through exactly once (in order for ordered input); join_responses: each response is matched with its request's metadata exactly once, unmatched/duplicate responses emit nothing".into();
    rep.assume("precondition from the statement: at most `max` responses per key; join_responses: unique keys, metadata acknowledged before the response is sent");
    rep.assume("the simulator's exhaustive search itself is complete (C37)");
    let configs: Vec<(usize, usize)> = if thorough { vec![(1, 1), (1, 2), (2, 2), (2, 3), (1, 3), (3, 3)] } else { vec![(1, 1), (1, 2), (2, 2), (2, 3)] };
    let max_len = if thorough { 4 } else { 3 };
    rep.bound("max_responses", max_len);
    rep.bound("configs", json!(configs));

    let only = replay;
    let only_kind = only.as_ref().map(|c| c["kind"].as_str().unwrap_or("").to_string());

    // ---- quorum flow: every (helper, min, max, ordering) program in one simulation -------------
    if only_kind.as_deref() != Some("join") {
        let mut flow = FlowBuilder::new();
        let node = flow.process::<()>();
        let mut q_ord: Vec<QProg<TotalOrder>> = vec![];
        let mut q_un: Vec<QProg<NoOrder>> = vec![];
        let mut r_ord: Vec<QrProg<TotalOrder>> = vec![];
        let mut r_un: Vec<QrProg<NoOrder>> = vec![];
        for &(min, max) in &configs {
            let (tx, input) = node.sim_input::<In0, TotalOrder, ExactlyOnce>();
            let (ok, err) = collect_quorum(input, min, max);
            q_ord.push(QProg { min, max, tx, ok: ok.sim_output(), err: err.sim_output() });
            let (tx, input) = node.sim_input::<In0, NoOrder, ExactlyOnce>();
            let (ok, err) = collect_quorum(input, min, max);
            q_un.push(QProg { min, max, tx, ok: ok.sim_output(), err: err.sim_output() });
            let (tx, input) = node.sim_input::<InR, TotalOrder, ExactlyOnce>();
            let (ok, err) = collect_quorum_with_response(input, min, max);
            r_ord.push(QrProg { min, max, tx, ok: ok.sim_output(), err: err.sim_output() });
            let (tx, input) = node.sim_input::<InR, NoOrder, ExactlyOnce>();
            let (ok, err) = collect_quorum_with_response(input, min, max);
            r_un.push(QrProg { min, max, tx, ok: ok.sim_output(), err: err.sim_output() });
        }
        let sim = flow.sim().compiled();
        let rec: Rec<Obs> = Rec::new();
        let wanted = |prog: &str, min: usize, max: usize, ordered: bool, seq: &Seq| {
            only.as_ref().is_none_or(|c| {
                c["prog"] == prog && c["min"] == min && c["max"] == max && c["ordered"] == ordered && seq_from_json(&c["seq"]) == *seq
            })
        };
        let in0 = |seq: &Seq| -> Vec<In0> { seq.iter().enumerate().map(|(i, (k, ok))| (*k, if *ok { Ok(()) } else { Err(i as u32 + 1) })).collect() };
        let inr = |seq: &Seq| -> Vec<InR> { seq.iter().enumerate().map(|(i, (k, ok))| (*k, if *ok { Ok(i as u32 + 1) } else { Err(i as u32 + 1) })).collect() };
        // NoOrder release subsets grow fast: one response fewer for unordered inputs
        let un_len = max_len - 1;

        let mut st = Stats::new();
        let mut j = Judge { st: &mut st, batching_dependent: 0, inputs: 0 };
        for p in &q_ord {
            for seq in sequences(max_len, p.max) {
                if !wanted("collect_quorum", p.min, p.max, true, &seq) {
                    continue;
                }
                j.case("collect_quorum", p.min, p.max, true, &seq, false, &mut || {
                    let r = exhaustive(&sim, async || {
                        p.tx.send_many(in0(&seq));
                        let ok: Vec<u32> = p.ok.collect_sorted().await;
                        let err: Vec<(u32, u32)> = p.err.collect().await;
                        rec.push(Obs { ok: ok.into_iter().map(|k| (k, 0)).collect(), err });
                    });
                    (r, rec.take())
                });
            }
        }
        for p in &q_un {
            for seq in sequences(un_len, p.max) {
                if !wanted("collect_quorum", p.min, p.max, false, &seq) {
                    continue;
                }
                j.case("collect_quorum", p.min, p.max, false, &seq, false, &mut || {
                    let r = exhaustive(&sim, async || {
                        p.tx.send_many_unordered(in0(&seq));
                        let ok: Vec<u32> = p.ok.collect_sorted().await;
                        let err: Vec<(u32, u32)> = p.err.collect_sorted().await;
                        rec.push(Obs { ok: ok.into_iter().map(|k| (k, 0)).collect(), err });
                    });
                    (r, rec.take())
                });
            }
        }
        let (bd, ins) = (j.batching_dependent, j.inputs);
        println!("  [collect_quorum] executions={} inputs={} inputs_with_batching_dependent_output={} violations={}", st.evaluations, ins, bd, st.violations_total);
        if bd > 0 && st.violations_total == 0 {
            machinery("collect_quorum outputs differ across batchings although every execution matched the reference");
        }
        rep.section("collect_quorum", st);

        let mut st = Stats::new();
        let mut j = Judge { st: &mut st, batching_dependent: 0, inputs: 0 };
        for p in &r_ord {
            for seq in sequences(max_len, p.max) {
                if !wanted("collect_quorum_with_response", p.min, p.max, true, &seq) {
                    continue;
                }
                j.case("collect_quorum_with_response", p.min, p.max, true, &seq, true, &mut || {
                    let r = exhaustive(&sim, async || {
                        p.tx.send_many(inr(&seq));
                        let ok: Vec<(u32, u32)> = p.ok.collect().await;
                        let err: Vec<(u32, u32)> = p.err.collect().await;
                        rec.push(Obs { ok, err });
                    });
                    (r, rec.take())
                });
            }
        }
        for p in &r_un {
            for seq in sequences(un_len, p.max) {
                if !wanted("collect_quorum_with_response", p.min, p.max, false, &seq) {
                    continue;
                }
                j.case("collect_quorum_with_response", p.min, p.max, false, &seq, true, &mut || {
                    let r = exhaustive(&sim, async || {
                        p.tx.send_many_unordered(inr(&seq));
                        let ok: Vec<(u32, u32)> = p.ok.collect_sorted().await;
                        let err: Vec<(u32, u32)> = p.err.collect_sorted().await;
                        rec.push(Obs { ok, err });
                    });
                    (r, rec.take())
                });
            }
        }
        let (bd, ins) = (j.batching_dependent, j.inputs);
        println!("  [collect_quorum_with_response] executions={} inputs={} inputs_whose_extra_responses_depend_on_batching={} violations={}", st.evaluations, ins, bd, st.violations_total);
        rep.bound("with_response_inputs_whose_emitted_set_depends_on_batching", bd);
        rep.section("collect_quorum_with_response", st);
    }

    // ---- join_responses (wiring of the repo's own tests) ------------------------------------
    if only_kind.as_deref() != Some("quorum") {
        let mut flow = FlowBuilder::new();
        let process = flow.process::<()>();
        let (response_send, responses) = process.sim_input::<(u32, u32), TotalOrder, ExactlyOnce>();
        let (metadata_send, metadata_input) = process.sim_input::<(u32, u32), TotalOrder, ExactlyOnce>();
        let metadata_processing = metadata_input.atomic();
        let metadata_ack = metadata_processing.clone().end_atomic();
        let metadata = metadata_processing.batch_atomic(&process.tick(), nondet!(/** as in the repo's tests */)).weaken_ordering();
        let joined = join_responses(responses.weaken_ordering(), metadata);
        let metadata_ack_recv = metadata_ack.sim_output();
        let joined_recv = joined.sim_output();
        let sim = flow.sim().compiled();

        type JObs = (Vec<(u32, u32)>, Vec<(u32, (u32, u32))>, Vec<(u32, (u32, u32))>);
        let rec: Rec<JObs> = Rec::new();
        let mut st = Stats::new();
        let scen = join_scenarios(if thorough { 3 } else { 2 });
        rep.bound("join_scenarios", scen.len());
        for evs in &scen {
            let name = format!("{evs:?}");
            if let Some(c) = &only
                && c["events"] != name.as_str()
            {
                continue;
            }
            let metas: Vec<u32> = evs.iter().filter_map(|e| if let Ev::Meta(k) = e { Some(*k) } else { None }).collect();
            let mut expect: Vec<(u32, (u32, u32))> =
                evs.iter().filter_map(|e| if let Ev::Resp(k) = e { Some(*k) } else { None }).filter(|k| metas.contains(k)).map(|k| (k, (10 * k, 100 + k))).collect();
            expect.sort();
            let run = || {
                let r = exhaustive(&sim, async || {
                    let mut acks = vec![];
                    let mut early: Vec<(u32, (u32, u32))> = vec![];
                    let mut i = 0;
                    while i < evs.len() {
                        match evs[i] {
                            Ev::Meta(_) => {
                                // consecutive metadata events are sent together, then acknowledged
                                let mut group = vec![];
                                while i < evs.len()
                                    && let Ev::Meta(k) = evs[i]
                                {
                                    group.push((k, 10 * k));
                                    i += 1;
                                }
                                let n = group.len();
                                metadata_send.send_many(group);
                                for _ in 0..n {
                                    acks.push(metadata_ack_recv.next().await);
                                }
                                continue;
                            }
                            Ev::Resp(k) => response_send.send((k, 100 + k)),
                            Ev::Dup(k) => {
                                // wait until the first response of k has been joined, then resend
                                early.push(joined_recv_next(&joined_recv, (k, (10 * k, 100 + k))).await);
                                response_send.send((k, 200 + k));
                            }
                        }
                        i += 1;
                    }
                    let rest: Vec<(u32, (u32, u32))> = joined_recv.collect_sorted().await;
                    rec.push((acks, early, rest));
                });
                (r, rec.take())
            };
            let eval = |res: &Result<usize, String>, obs: &[JObs]| -> Vec<(String, String, Value)> {
                let mut v = vec![];
                let case = json!({"kind": "join", "events": name});
                if let Err(p) = res {
                    v.push((format!("C39|join_responses|{name}|panic"), format!("join_responses {name}: simulation panicked: {}", p.chars().take(300).collect::<String>()), case.clone()));
                }
                for (acks, early, rest) in obs {
                    let mut all: Vec<_> = early.iter().chain(rest.iter()).cloned().collect();
                    all.sort();
                    let exp_acks: Vec<(u32, u32)> = metas.iter().map(|k| (*k, 10 * k)).collect();
                    if *acks != exp_acks {
                        v.push((format!("C39|join_responses|{name}|acks"), format!("join_responses {name}: metadata acks {acks:?} != {exp_acks:?}"), case.clone()));
                    }
                    if all != expect {
                        v.push((
                            format!("C39|join_responses|{name}|match"),
                            format!("join_responses {name}: joined {all:?}, reference (each response with its request's metadata, once) {expect:?}"),
                            case.clone(),
                        ));
                    }
                }
                v
            };
            let (res, obs) = run();
            for o in &obs {
                st.eval();
                st.outcome(&("join", o));
            }
            st.nontrivial(&name);
            st.sample(|| json!({"case": name, "executions": obs.len(), "first": format!("{:?}", obs.first())}));
            let viol = eval(&res, &obs);
            if !viol.is_empty() {
                let (res2, obs2) = run();
                let k1: BTreeSet<_> = viol.iter().map(|v| v.0.clone()).collect();
                let k2: BTreeSet<_> = eval(&res2, &obs2).iter().map(|v| v.0.clone()).collect();
                if k1 != k2 {
                    machinery(&format!("join_responses {name}: violation did not reproduce"));
                }
                for (k, w, r) in viol {
                    st.violation(k, w, r);
                }
            }
        }
        // ---- metadata and its response sent TOGETHER (the simulator may batch them into one
        // tick: "same or a previous tick" in the doc contract), then, behind a quiescence barrier,
        // a second response with the same key. Whatever tick the first response landed in (if it
        // ran before the metadata it is legitimately unmatched), every key must be joined with
        // its metadata exactly ONCE in total.
        let together: Vec<(Vec<u32>, Vec<u32>)> = vec![(vec![1], vec![1]), (vec![1, 2], vec![1, 2]), (vec![1, 2], vec![2]), (vec![1, 2], vec![])];
        let rec2: Rec<(Vec<(u32, u32)>, Vec<(u32, (u32, u32))>)> = Rec::new();
        for (keys, dups) in &together {
            let name = format!("together{keys:?}+dup{dups:?}");
            if let Some(c) = &only
                && c["events"] != name.as_str()
            {
                continue;
            }
            let run = || {
                let r = exhaustive(&sim, async || {
                    metadata_send.send_many(keys.iter().map(|k| (*k, 10 * k)));
                    response_send.send_many(keys.iter().map(|k| (*k, 100 + k)));
                    let mut acks = vec![];
                    for _ in keys {
                        acks.push(metadata_ack_recv.next().await);
                    }
                    // phase barrier: the first responses have been consumed by some tick
                    hydro_lang::sim::quiesce().await;
                    response_send.send_many(dups.iter().map(|k| (*k, 200 + k)));
                    let all: Vec<(u32, (u32, u32))> = joined_recv.collect_sorted().await;
                    rec2.push((acks, all));
                });
                (r, rec2.take())
            };
            type TObs = (Vec<(u32, u32)>, Vec<(u32, (u32, u32))>);
            let eval = |res: &Result<usize, String>, obs: &[TObs]| -> Vec<(String, String, Value)> {
                let mut v = vec![];
                let case = json!({"kind": "join", "events": name});
                if let Err(p) = res {
                    v.push((format!("C39|join_responses|{name}|panic"), format!("join_responses {name}: simulation panicked: {}", p.chars().take(300).collect::<String>()), case.clone()));
                }
                for (acks, all) in obs {
                    let exp_acks: Vec<(u32, u32)> = keys.iter().map(|k| (*k, 10 * k)).collect();
                    if *acks != exp_acks {
                        v.push((format!("C39|join_responses|{name}|acks"), format!("join_responses {name}: metadata acks {acks:?} != {exp_acks:?}"), case.clone()));
                    }
                    for k in keys {
                        let mine: Vec<&(u32, (u32, u32))> = all.iter().filter(|(kk, _)| kk == k).collect();
                        let well_formed = mine.iter().all(|(_, (m, r))| *m == 10 * k && (*r == 100 + k || (*r == 200 + k && dups.contains(k))));
                        // a key without a later duplicate may legitimately stay unmatched if its
                        // response was batched before its metadata existed
                        let count_ok = if dups.contains(k) { mine.len() == 1 } else { mine.len() <= 1 };
                        if !well_formed || !count_ok {
                            v.push((
                                format!("C39|join_responses|{name}|match"),
                                format!("join_responses {name}: key {k} was joined {} time(s): {mine:?} (reference: with its request's metadata, exactly once in total); all joined {all:?}", mine.len()),
                                case.clone(),
                            ));
                            break;
                        }
                    }
                    if all.iter().any(|(k, _)| !keys.contains(k)) {
                        v.push((format!("C39|join_responses|{name}|match"), format!("join_responses {name}: unknown key joined: {all:?}"), case.clone()));
                    }
                }
                v
            };
            let (res, obs) = run();
            for o in &obs {
                st.eval();
                st.outcome(&("join-together", &name, o));
            }
            st.nontrivial(&name);
            st.sample(|| json!({"case": name, "executions": obs.len(), "first": format!("{:?}", obs.first())}));
            let mut viol = eval(&res, &obs);
            if !viol.is_empty() {
                let (res2, obs2) = run();
                let k1: BTreeSet<_> = viol.iter().map(|v| v.0.clone()).collect();
                let k2: BTreeSet<_> = eval(&res2, &obs2).iter().map(|v| v.0.clone()).collect();
                if k1 != k2 {
                    machinery(&format!("join_responses {name}: violation did not reproduce"));
                }
                let n_bad = viol.len();
                viol.truncate(1);
                for (k, w, r) in viol {
                    st.violation(k, format!("{w} [{n_bad} of {} schedules]", obs.len()), r);
                }
            }
            println!("    (join_responses {name}: {} schedules)", obs.len());
        }
        println!("  [join_responses] scenarios={} executions={} violations={}", scen.len(), st.evaluations, st.violations_total);
        rep.section("join_responses", st);
    }
    if only.is_some() {
        let v = rep.sections.values().map(|s| s["violations"].as_u64().unwrap_or(0)).sum::<u64>();
        println!("replay: {} violating executions", v);
        std::process::exit(if v > 0 { 1 } else { 0 });
    }
}

/// Waits for one joined element on the unordered output; anything else than `want` is recorded
/// as-is (the oracle compares the union of everything received).
async fn joined_recv_next(
    recv: &SimReceiver<(u32, (u32, u32)), NoOrder, ExactlyOnce>,
    want: (u32, (u32, u32)),
) -> (u32, (u32, u32)) {
    recv.assert_yields_unordered([want]).await;
    want
}
