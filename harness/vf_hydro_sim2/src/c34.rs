//! C34 — atomic acknowledgements imply read-after-write.
use std::cell::Cell;
use std::collections::BTreeSet;

use hydro_lang::live_collections::stream::{ExactlyOnce, NoOrder, TotalOrder};
use hydro_lang::prelude::*;
use hydro_lang::sim::{SimReceiver, SimSender};
use hydro_test::tutorials as tut;
use vf_explore::{Report, Stats, Value, combi, json};
use vf_hydro_sim2::atomics;

use crate::{Rec, exhaustive, machinery};

type Tx<T> = SimSender<T, TotalOrder, ExactlyOnce>;
type Rx<T> = SimReceiver<T, TotalOrder, ExactlyOnce>;

/// Unordered outputs are observed one element at a time through an ordering observation, so
/// the body can react to each acknowledgement individually.
fn ordered<'a, T, PT>(s: Stream<T, Process<'a, PT>, Unbounded, NoOrder>) -> Rx<T>
where
    T: serde::Serialize + serde::de::DeserializeOwned + 'a,
{
    s.assume_ordering::<TotalOrder>(nondet!(/** verif harness: outputs are read one at a time */)).sim_output()
}

/// Uniform client view of every counter program.
trait Counter {
    fn name(&self) -> &'static str;
    /// per-key counts (true) or one global count (false)
    fn keyed(&self) -> bool;
    fn send_inc(&self, client: u32, key: u32);
    /// the key of the acknowledged increment (0 for unkeyed programs)
    fn next_ack(&self) -> impl Future<Output = u32>;
    fn send_read(&self, tag: u32, key: u32);
    /// (tag, count)
    fn next_resp(&self) -> impl Future<Output = (u32, usize)>;
}

struct SingleClient {
    name: &'static str,
    inc: Tx<()>,
    ack: Rx<()>,
    get: Tx<()>,
    resp: Rx<usize>,
    reads_sent: Cell<u32>,
    reads_seen: Cell<u32>,
    tags: std::cell::RefCell<Vec<u32>>,
}
impl Counter for SingleClient {
    fn name(&self) -> &'static str {
        self.name
    }
    fn keyed(&self) -> bool {
        false
    }
    fn send_inc(&self, _client: u32, _key: u32) {
        self.inc.send(());
    }
    async fn next_ack(&self) -> u32 {
        self.ack.next().await;
        0
    }
    fn send_read(&self, tag: u32, _key: u32) {
        self.tags.borrow_mut().push(tag);
        self.reads_sent.set(self.reads_sent.get() + 1);
        self.get.send(());
    }
    async fn next_resp(&self) -> (u32, usize) {
        // a single ordered client: the i-th response answers the i-th read
        let c = self.resp.next().await;
        let i = self.reads_seen.get();
        self.reads_seen.set(i + 1);
        let tag = self.tags.borrow()[i as usize];
        (tag, c)
    }
}
impl SingleClient {
    fn reset(&self) {
        self.reads_sent.set(0);
        self.reads_seen.set(0);
        self.tags.borrow_mut().clear();
    }
}

/// single_counter / concurrent_clients: requests keyed by client id, one global count.
struct ClientKeyed {
    name: &'static str,
    inc: Tx<(u32, ())>,
    ack: Rx<(u32, ())>,
    get: Tx<(u32, ())>,
    resp: Rx<(u32, usize)>,
}
impl Counter for ClientKeyed {
    fn name(&self) -> &'static str {
        self.name
    }
    fn keyed(&self) -> bool {
        false
    }
    fn send_inc(&self, client: u32, _key: u32) {
        self.inc.send((client, ()));
    }
    async fn next_ack(&self) -> u32 {
        self.ack.next().await;
        0
    }
    fn send_read(&self, tag: u32, _key: u32) {
        self.get.send((tag, ()));
    }
    async fn next_resp(&self) -> (u32, usize) {
        self.resp.next().await
    }
}

/// keyed_counter / partitioned_counter: (client, key) requests, per-key counts.
struct KeyedCounter {
    name: &'static str,
    inc: Tx<(u32, String)>,
    ack: Rx<(u32, String)>,
    get: Tx<(u32, String)>,
    resp: Rx<(u32, (String, usize))>,
}
fn kname(key: u32) -> String {
    format!("k{key}")
}
fn kparse(s: &str) -> u32 {
    s.trim_start_matches('k').parse().unwrap_or(0)
}
impl Counter for KeyedCounter {
    fn name(&self) -> &'static str {
        self.name
    }
    fn keyed(&self) -> bool {
        true
    }
    fn send_inc(&self, client: u32, key: u32) {
        self.inc.send((client, kname(key)));
    }
    async fn next_ack(&self) -> u32 {
        kparse(&self.ack.next().await.1)
    }
    fn send_read(&self, tag: u32, key: u32) {
        self.get.send((tag, kname(key)));
    }
    async fn next_resp(&self) -> (u32, usize) {
        let (tag, (_k, c)) = self.resp.next().await;
        (tag, c)
    }
}

/// own minimal program: writes of value 1, reads tagged.
struct Minimal {
    name: &'static str,
    inc: Tx<u32>,
    ack: Rx<u32>,
    get: Tx<u32>,
    resp: Rx<(u32, u32)>,
}
impl Counter for Minimal {
    fn name(&self) -> &'static str {
        self.name
    }
    fn keyed(&self) -> bool {
        false
    }
    fn send_inc(&self, _client: u32, _key: u32) {
        self.inc.send(1);
    }
    async fn next_ack(&self) -> u32 {
        self.ack.next().await;
        0
    }
    fn send_read(&self, tag: u32, _key: u32) {
        self.get.send(tag);
    }
    async fn next_resp(&self) -> (u32, usize) {
        let (tag, sum) = self.resp.next().await;
        (tag, sum as usize)
    }
}

/// One read: issued after `acked` acknowledged increments of `key`, answered with `count`.
#[derive(Clone, Debug, Hash, PartialEq, Eq)]
struct ReadObs {
    key: u32,
    acked: usize,
    count: usize,
}

/// inc, wait for its ack, read (and, with `cross`, also read the other key), wait for the answer.
async fn body_seq<C: Counter>(c: &C, incs: &[u32], cross: bool) -> Vec<ReadObs> {
    let mut acked = [0usize; 4];
    let mut out = vec![];
    let mut tag = 0;
    for (i, &key) in incs.iter().enumerate() {
        c.send_inc(i as u32 + 1, key);
        let k = c.next_ack().await as usize;
        acked[k] += 1;
        let mut keys = vec![key];
        // a key that was never incremented has no count and a read of it gets no answer at all
        if cross && c.keyed() && acked[(3 - key) as usize] > 0 {
            keys.push(3 - key);
        }
        for rk in keys {
            tag += 1;
            c.send_read(tag, rk);
            let (_t, count) = c.next_resp().await;
            out.push(ReadObs { key: rk, acked: acked[if c.keyed() { rk as usize } else { 0 }], count });
        }
    }
    out
}

/// all increments sent up front; a read is issued after each observed ack; answers read last.
async fn body_pipe<C: Counter>(c: &C, incs: &[u32]) -> Vec<ReadObs> {
    let mut acked = [0usize; 4];
    let mut expected: Vec<(u32, usize)> = vec![];
    for (i, &key) in incs.iter().enumerate() {
        c.send_inc(i as u32 + 1, key);
    }
    for i in 0..incs.len() {
        let k = c.next_ack().await;
        acked[k as usize] += 1;
        let rk = if c.keyed() { k } else { 0 };
        c.send_read(i as u32 + 1, rk);
        expected.push((rk, acked[k as usize]));
    }
    let mut out = vec![];
    for _ in 0..incs.len() {
        let (tag, count) = c.next_resp().await;
        let (key, acked) = expected[(tag - 1) as usize];
        out.push(ReadObs { key, acked, count });
    }
    out
}

struct Tally {
    /// per program: (executions, executions with a stale read)
    per_prog: std::collections::BTreeMap<&'static str, (u64, u64)>,
}

#[expect(clippy::too_many_arguments, reason = "internal")]
fn run_prog<C: Counter>(
    st: &mut Stats,
    tally: &mut Tally,
    sim: &hydro_lang::sim::compiled::CompiledSim,
    c: &C,
    buggy: bool,
    k_max: usize,
    _thorough: bool,
    only: &Option<Value>,
    reset: &dyn Fn(),
) {
    let keysets: Vec<Vec<u32>> = if c.keyed() { vec![vec![1], vec![1, 2]] } else { vec![vec![0]] };
    let mut cases: Vec<(&'static str, Vec<u32>)> = vec![];
    let mut seen = BTreeSet::new();
    for ks in &keysets {
        for k in 1..=k_max {
            for incs in combi::sequences(ks, k) {
                // key names are symmetric: only sequences whose first key is the smallest one
                if !seen.insert(incs.clone()) || incs[0] != ks[0] {
                    continue;
                }
                cases.push(("seq", incs.clone()));
                if k >= 2 {
                    cases.push(("pipe", incs.clone()));
                }
                if c.keyed() && k >= 2 && incs.contains(&1) && incs.contains(&2) {
                    cases.push(("seq_cross", incs));
                }
            }
        }
    }
    let rec: Rec<Vec<ReadObs>> = Rec::new();
    for (body, incs) in cases {
        let key = format!("{}|{}|incs={:?}", c.name(), body, incs);
        if let Some(o) = only
            && (o["prog"] != c.name() || o["body"] != body || o["incs"] != json!(incs))
        {
            continue;
        }
        // the adapters hold Cells; nothing of them is observed after a panic
        let cw = std::panic::AssertUnwindSafe(c);
        let resetw = std::panic::AssertUnwindSafe(reset);
        let run = || {
            let r = exhaustive(sim, async || {
                let c: &C = &cw;
                let reset: &dyn Fn() = *std::ops::Deref::deref(&resetw);
                reset();
                let obs = match body {
                    "seq" => body_seq(c, &incs, false).await,
                    "seq_cross" => body_seq(c, &incs, true).await,
                    _ => body_pipe(c, &incs).await,
                };
                rec.push(obs);
            });
            (r, rec.take())
        };
        let stale = |obs: &[Vec<ReadObs>]| -> Vec<Vec<ReadObs>> { obs.iter().filter(|e| e.iter().any(|r| r.count < r.acked)).cloned().collect() };
        let (res, obs) = run();
        let bad = stale(&obs);
        if obs.len() > 20_000 {
            println!("    ({key}: {} schedules)", obs.len());
        }
        let t = tally.per_prog.entry(c.name()).or_insert((0, 0));
        t.0 += obs.len() as u64;
        t.1 += bad.len() as u64;
        for o in &obs {
            st.eval();
            st.outcome(&(c.name(), o));
            st.nontrivial(&(&key, o));
        }
        st.sample(|| json!({"case": key, "instances": format!("{res:?}"), "executions": obs.len(), "stale_read_executions": bad.len(), "first": format!("{:?}", obs.first())}));
        if buggy {
            // in-repo mutants: stale reads (and the assertion-free bodies never panic) are expected
            continue;
        }
        let case = json!({"prog": c.name(), "body": body, "incs": incs});
        let mut viol: Vec<(String, String, Value)> = vec![];
        if let Err(p) = &res {
            viol.push((format!("C34|{key}|panic"), format!("{key}: simulation panicked: {}", p.chars().take(300).collect::<String>()), case.clone()));
        }
        if let Some(b) = bad.first() {
            let r = b.iter().find(|r| r.count < r.acked).unwrap();
            viol.push((
                format!("C34|{key}|stale-read"),
                format!("{key}: a read issued after {} acknowledged increments of key {} returned {} ({} of {} schedules); reads of that schedule: {b:?}", r.acked, r.key, r.count, bad.len(), obs.len()),
                case.clone(),
            ));
        }
        if !viol.is_empty() {
            let (res2, obs2) = run();
            let again = res2.is_err() == res.is_err() && stale(&obs2).len() == bad.len();
            if !again {
                machinery(&format!("{key}: violation did not reproduce"));
            }
            for (k, w, r) in viol {
                st.violation(k, w, r);
            }
        }
    }
}

pub fn run(rep: &mut Report, thorough: bool, replay: Option<Value>) {
    rep.rule = "case = (counter program, body shape {inc/ack/read sequential, all incs up front then a read after each observed ack, sequential with cross-key reads}, sequence of increment keys); for each case the repo's exhaustive simulator search enumerates every release decision; an execution is distinct by its list of (key, acks observed before the read, count returned)".into();
    rep.explanation = "every read that the body issued after observing the acknowledgement of i increments of a key must return a count >= i; the same harness run on the repo's non-atomic/buggy tutorial variants must find stale reads (vacuity guard)".into();
    rep.assume("unordered outputs are read through an `assume_ordering` observation appended by the harness (the programs themselves are the repo's functions, unmodified)");
    rep.assume("the simulator's exhaustive search itself is complete (C37)");
    // ordered single-client programs are cheap; programs with unordered (client-keyed) outputs
    // multiply schedules by the output-ordering observations the harness appends
    let k_max = if thorough { 4 } else { 3 };
    let k_keyed = if thorough { 3 } else { 2 };
    rep.bound("max_increments_single_client_and_own", k_max);
    rep.bound("max_increments_client_keyed_and_keyed", k_keyed);
    rep.bound("max_increments_partitioned_counter", 2);
    rep.bound("max_increments_buggy_variants", 2);
    rep.bound("keys", 2);

    let mut tally = Tally { per_prog: Default::default() };

    // ---- single-process programs ------------------------------------------------------------
    // The atomic (correct) programs are silent while idle and share one simulation; every
    // non-atomic variant snapshots a top-level singleton (its hook can run an idle tick, which would
    // multiply the schedules of its neighbours), so each gets a simulation of its own.
    macro_rules! single_client {
        ($flow:ident, $name:expr, $tag:ty, $f:path) => {{
            let p = $flow.process::<$tag>();
            let (inc, incs) = p.sim_input();
            let (get, gets) = p.sim_input();
            let (acks, resps) = $f(incs, gets);
            SingleClient { name: $name, inc, ack: acks.sim_output(), get, resp: resps.sim_output(), reads_sent: Cell::new(0), reads_seen: Cell::new(0), tags: Default::default() }
        }};
    }
    macro_rules! client_keyed {
        ($flow:ident, $name:expr, $tag:ty, $f:path) => {{
            let p = $flow.process::<$tag>();
            let (inc, incs) = p.sim_input();
            let (get, gets) = p.sim_input();
            let (acks, resps) = $f(incs.into_keyed(), gets.into_keyed());
            ClientKeyed { name: $name, inc, ack: ordered(acks.entries()), get, resp: ordered(resps.entries()) }
        }};
    }
    macro_rules! prog {
        ($sim:expr, $c:expr, $buggy:expr, $k:expr, $reset:expr) => {{
            let mut st = Stats::new();
            run_prog(&mut st, &mut tally, &$sim, &$c, $buggy, $k, thorough, &replay, $reset);
            let t = tally.per_prog.get($c.name()).copied().unwrap_or((0, 0));
            println!("  [{}] executions={} stale_read_executions={} violations={}", $c.name(), t.0, t.1, st.violations_total);
            rep.section($c.name(), st);
        }};
    }
    let none = || {};
    {
        let mut flow = FlowBuilder::new();
        let sc = single_client!(flow, "single_client_counter", tut::single_client_counter::CounterServer, tut::single_client_counter::single_client_counter_service);
        let s1 = client_keyed!(flow, "single_counter", tut::single_counter::CounterServer, tut::single_counter::single_counter_service);
        let cc = client_keyed!(flow, "concurrent_clients", tut::concurrent_clients::CounterServer, tut::concurrent_clients::concurrent_counter_service);
        let kc = {
            let p = flow.process::<tut::keyed_counter::CounterServer>();
            let (inc, incs) = p.sim_input();
            let (get, gets) = p.sim_input();
            let (acks, resps) = tut::keyed_counter::keyed_counter_service(incs.into_keyed(), gets.into_keyed());
            KeyedCounter { name: "keyed_counter", inc, ack: ordered(acks.entries()), get, resp: ordered(resps.entries()) }
        };
        let own = {
            let p = flow.process::<atomics::Server>();
            let (inc, w) = p.sim_input();
            let (get, r) = p.sim_input();
            let (acks, resps) = atomics::write_ack_atomic_read(w, r);
            Minimal { name: "own_write_ack_atomic_read", inc, ack: acks.sim_output(), get, resp: resps.sim_output() }
        };
        let sim = flow.sim().compiled();
        prog!(sim, sc, false, k_max, &|| sc.reset());
        prog!(sim, s1, false, k_keyed, &none);
        prog!(sim, cc, false, 2, &none); // same body as single_counter in the repo
        prog!(sim, kc, false, k_keyed, &none);
        prog!(sim, own, false, k_max, &none);
    }
    {
        let mut flow = FlowBuilder::new();
        let sc_bug = single_client!(flow, "single_client_counter_buggy", tut::single_client_counter_buggy::CounterServer, tut::single_client_counter_buggy::single_client_counter_service_buggy);
        let sim = flow.sim().compiled();
        prog!(sim, sc_bug, true, 2, &|| sc_bug.reset());
    }
    {
        let mut flow = FlowBuilder::new();
        let s1_bug = client_keyed!(flow, "single_counter_buggy", tut::single_counter_buggy::CounterServer, tut::single_counter_buggy::single_counter_service_buggy);
        let sim = flow.sim().compiled();
        prog!(sim, s1_bug, true, 2, &none);
    }
    {
        let mut flow = FlowBuilder::new();
        let kc_bug = {
            let p = flow.process::<tut::keyed_counter_non_atomic::CounterServer>();
            let (inc, incs) = p.sim_input::<(u32, String), TotalOrder, ExactlyOnce>();
            let (get, gets) = p.sim_input::<(u32, String), TotalOrder, ExactlyOnce>();
            let (acks, resps) = tut::keyed_counter_non_atomic::keyed_counter_service_buggy(incs.into_keyed(), gets.into_keyed());
            KeyedCounter { name: "keyed_counter_non_atomic", inc, ack: ordered(acks.entries()), get, resp: ordered(resps.entries()) }
        };
        let sim = flow.sim().compiled();
        prog!(sim, kc_bug, true, 2, &none);
    }
    {
        let mut flow = FlowBuilder::new();
        let own_bug = {
            let p = flow.process::<atomics::Server>();
            let (inc, w) = p.sim_input();
            let (get, r) = p.sim_input();
            let (acks, resps) = atomics::write_ack_plain_read(w, r);
            Minimal { name: "own_write_ack_plain_read", inc, ack: acks.sim_output(), get, resp: resps.sim_output() }
        };
        let sim = flow.sim().compiled();
        prog!(sim, own_bug, true, 2, &none);
    }

    // ---- flow B: partitioned_counter (leader process + 5 shards) ---------------------------
    {
        let mut flow = FlowBuilder::new();
        let process = flow.process::<tut::partitioned_counter::CounterServer>();
        let shards = flow.cluster::<tut::partitioned_counter::CounterShard>();
        let (inc, incs) = process.sim_input();
        let (get, gets) = process.sim_input();
        let (acks, resps) = tut::partitioned_counter::sharded_counter_service(&process, &shards, incs.into_keyed(), gets.into_keyed());
        let pc = KeyedCounter { name: "partitioned_counter", inc, ack: ordered(acks.entries()), get, resp: ordered(resps.entries()) };
        let sim = flow.sim().with_cluster_size(&shards, 5).compiled();
        let mut st = Stats::new();
        // the network hops multiply the schedules: one increment fewer than the other programs
        run_prog(&mut st, &mut tally, &sim, &pc, false, 2, false, &replay, &|| {});
        let t = tally.per_prog.get(pc.name()).copied().unwrap_or((0, 0));
        println!("  [{}] executions={} stale_read_executions={} violations={}", pc.name(), t.0, t.1, st.violations_total);
        rep.section(pc.name(), st);
    }

    if replay.is_some() {
        let v = rep.sections.values().map(|s| s["violations"].as_u64().unwrap_or(0)).sum::<u64>();
        println!("replay: {} violations", v);
        std::process::exit(if v > 0 { 1 } else { 0 });
    }
    // Vacuity guard: the in-repo mutants must be caught by this very harness.
    let mut guard = vec![];
    for b in ["single_client_counter_buggy", "single_counter_buggy", "keyed_counter_non_atomic", "own_write_ack_plain_read"] {
        let (execs, stale) = tally.per_prog.get(b).copied().unwrap_or((0, 0));
        guard.push(json!({"program": b, "executions": execs, "stale_read_executions": stale}));
        if stale == 0 {
            machinery(&format!("vacuity guard: buggy variant {b} never produced a stale read in {execs} executions"));
        }
    }
    rep.bound("vacuity_guard_buggy_variants", json!(guard));
}
