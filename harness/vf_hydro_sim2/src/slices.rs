//! C31 corpus: `sliced!` programs whose body emits one record per slice, so the checker can read
//! batch contents, snapshot values and slice-local state of every slice from the output.
//! Inputs are the counters 1,2,3,.. (versions are readable from values).
use hydro_lang::live_collections::stream::NoOrder;
use hydro_lang::location::Atomic;
use hydro_lang::prelude::*;

/// Location tag of the single process used by the corpus.
pub struct Node;

type P<'a> = Process<'a, Node>;

/// P1: `use::batch` + `use::snapshot` (count of the same input) + `use::state` (running sum of
/// batch sizes). Record: (batch contents, count snapshot, state read, state written).
pub fn batch_snapshot_state<'a>(
    input: Stream<u32, P<'a>, Unbounded>,
) -> Stream<(Vec<u32>, usize, usize, usize), P<'a>, Unbounded> {
    let total = input.clone().count();
    sliced! {
        let batch = use::batch(input, nondet!(/** verif: all batchings enumerated */));
        let snap = use::snapshot(total, nondet!(/** verif: all snapshots enumerated */));
        let mut seen = use::state(|l| l.singleton(q!(0usize)));

        let contents = batch.clone().collect_vec();
        let new_seen = seen.clone().zip(batch.count()).map(q!(|(a, b)| a + b));
        let out = contents
            .zip(snap)
            .zip(seen.zip(new_seen.clone()))
            .map(q!(|((c, s), (st_in, st_out))| (c, s, st_in, st_out)));
        seen = new_seen;
        out.into_stream()
    }
}

/// P2: `use::batch` + `use::state_null` (Optional holding the last element of the previous
/// slice). Record: (batch contents, state read or 0 when null, state written or 0 when null).
pub fn batch_state_null<'a>(
    input: Stream<u32, P<'a>, Unbounded>,
) -> Stream<(Vec<u32>, u32, u32), P<'a>, Unbounded> {
    sliced! {
        let batch = use::batch(input, nondet!(/** verif: all batchings enumerated */));
        let mut prev = use::state_null::<Optional<u32, Tick<_>, Bounded>>();

        let prev_or_zero = prev.clone().unwrap_or(prev.location().singleton(q!(0u32)));
        let last = batch.clone().last();
        let last_or_zero = last.clone().unwrap_or(prev.location().singleton(q!(0u32)));
        let out = batch
            .collect_vec()
            .zip(prev_or_zero)
            .zip(last_or_zero)
            .map(q!(|((c, p), l)| (c, p, l)));
        prev = last;
        out.into_stream()
    }
}

/// P3 (atomic style): the input enters an atomic region, a count is folded inside it, and the
/// slice reads both through `use::atomic`. Also returns the `end_atomic` acknowledgement stream.
/// Record: (batch contents, count snapshot).
#[expect(clippy::type_complexity, reason = "corpus program")]
pub fn atomic_batch_count<'a>(
    input: Stream<u32, P<'a>, Unbounded>,
) -> (
    Stream<u32, P<'a>, Unbounded>,
    Stream<(Vec<u32>, usize), P<'a>, Unbounded>,
) {
    let processing = input.atomic();
    let count = processing.clone().count();
    let ack = processing.clone().end_atomic();
    let out = sliced! {
        let batch = use::atomic(processing, nondet!(/** verif: all batchings enumerated */));
        let snap = use::atomic(count, nondet!(/** verif: atomic snapshot */));
        batch.collect_vec().zip(snap).into_stream()
    };
    (ack, out)
}

/// P4: unordered input. Record: (batch contents in arrival order of the batch, count snapshot,
/// state read, state written); the checker compares batches as multisets.
pub fn unordered_batch_snapshot_state<'a>(
    input: Stream<u32, P<'a>, Unbounded, NoOrder>,
) -> Stream<(Vec<u32>, usize, usize, usize), P<'a>, Unbounded> {
    let total = input.clone().count();
    sliced! {
        let batch = use::batch(input, nondet!(/** verif: all batchings enumerated */));
        let snap = use::snapshot(total, nondet!(/** verif: all snapshots enumerated */));
        let mut seen = use::state(|l| l.singleton(q!(0usize)));

        let contents = batch.clone().fold(
            q!(|| Vec::new()),
            q!(|acc: &mut Vec<u32>, v| acc.push(v), commutative = manual_proof!(/** compared as a multiset by the checker */)),
        );
        let new_seen = seen.clone().zip(batch.count()).map(q!(|(a, b)| a + b));
        let out = contents
            .zip(snap)
            .zip(seen.zip(new_seen.clone()))
            .map(q!(|((c, s), (st_in, st_out))| (c, s, st_in, st_out)));
        seen = new_seen;
        out.into_stream()
    }
}

/// P5: two batch hooks (two inputs) and a snapshot in one slice.
/// Record: (batch of a, batch of b, snapshot of count(a)).
pub fn two_batches_snapshot<'a>(
    a: Stream<u32, P<'a>, Unbounded>,
    b: Stream<u32, P<'a>, Unbounded>,
) -> Stream<(Vec<u32>, Vec<u32>, usize), P<'a>, Unbounded> {
    let total_a = a.clone().count();
    sliced! {
        let batch_a = use::batch(a, nondet!(/** verif */));
        let batch_b = use::batch(b, nondet!(/** verif */));
        let snap = use::snapshot(total_a, nondet!(/** verif */));
        batch_a
            .collect_vec()
            .zip(batch_b.collect_vec())
            .zip(snap)
            .map(q!(|((x, y), s)| (x, y, s)))
            .into_stream()
    }
}

/// P6: keyed batch. Input (key, value) with values 1,2,3..; record: the batch's entries grouped
/// by key in per-key order, as a sorted vec of (key, values).
pub fn keyed_batch<'a>(
    input: Stream<(u32, u32), P<'a>, Unbounded>,
) -> Stream<Vec<(u32, Vec<u32>)>, P<'a>, Unbounded> {
    let keyed = input.into_keyed();
    sliced! {
        let batch = use::batch(keyed, nondet!(/** verif */));
        batch
            .fold(q!(|| Vec::new()), q!(|acc: &mut Vec<u32>, v| acc.push(v)))
            .entries()
            .fold(
                q!(|| Vec::new()),
                q!(|acc: &mut Vec<(u32, Vec<u32>)>, kv| {
                    acc.push(kv);
                    acc.sort();
                }, commutative = manual_proof!(/** sorted after every insert */)),
            )
            .into_stream()
    }
}

/// P7 (atomic + state): atomic batch, atomic count, and a `use::state` carrying the previous
/// snapshot. Record: (batch, count snapshot, previous snapshot read from state).
pub fn atomic_batch_count_state<'a>(
    input: Stream<u32, P<'a>, Unbounded>,
) -> Stream<(Vec<u32>, usize, usize), P<'a>, Unbounded> {
    let processing: Stream<u32, Atomic<P<'a>>, Unbounded> = input.atomic();
    let count = processing.clone().count();
    sliced! {
        let batch = use::atomic(processing, nondet!(/** verif */));
        let snap = use::atomic(count, nondet!(/** verif */));
        let mut prev_snap = use::state(|l| l.singleton(q!(0usize)));

        let out = batch
            .collect_vec()
            .zip(snap.clone())
            .zip(prev_snap)
            .map(q!(|((c, s), p)| (c, s, p)));
        prev_snap = snap;
        out.into_stream()
    }
}

// ---- one collection consumed by TWO slices ------------------------------------------------------
// Every slice must see a partition of the FULL input of the shared collection.

type KeyedRecord = Vec<(u32, Vec<u32>)>;

fn keyed_slice_ordered<'a>(keyed: KeyedStream<u32, u32, P<'a>, Unbounded>) -> Stream<KeyedRecord, P<'a>, Unbounded> {
    sliced! {
        let batch = use::batch(keyed, nondet!(/** verif */));
        batch
            .fold(q!(|| Vec::new()), q!(|acc: &mut Vec<u32>, v| acc.push(v)))
            .entries()
            .fold(
                q!(|| Vec::new()),
                q!(|acc: &mut Vec<(u32, Vec<u32>)>, kv| {
                    acc.push(kv);
                    acc.sort();
                }, commutative = manual_proof!(/** sorted after every insert */)),
            )
            .into_stream()
    }
}

fn keyed_slice_unordered<'a>(keyed: KeyedStream<u32, u32, P<'a>, Unbounded, NoOrder>) -> Stream<KeyedRecord, P<'a>, Unbounded> {
    sliced! {
        let batch = use::batch(keyed, nondet!(/** verif */));
        batch
            .fold(
                q!(|| Vec::new()),
                q!(|acc: &mut Vec<u32>, v| {
                    acc.push(v);
                    acc.sort();
                }, commutative = manual_proof!(/** sorted after every insert */)),
            )
            .entries()
            .fold(
                q!(|| Vec::new()),
                q!(|acc: &mut Vec<(u32, Vec<u32>)>, kv| {
                    acc.push(kv);
                    acc.sort();
                }, commutative = manual_proof!(/** sorted after every insert */)),
            )
            .into_stream()
    }
}

/// P8: one keyed stream batched by two slices. Records as P6, one stream per slice.
#[expect(clippy::type_complexity, reason = "corpus program")]
pub fn shared_keyed_two_slices<'a>(
    input: Stream<(u32, u32), P<'a>, Unbounded>,
) -> (Stream<KeyedRecord, P<'a>, Unbounded>, Stream<KeyedRecord, P<'a>, Unbounded>) {
    let keyed = input.into_keyed();
    (keyed_slice_ordered(keyed.clone()), keyed_slice_ordered(keyed))
}

/// P9: one (unkeyed) stream batched by two slices. Record: batch contents.
#[expect(clippy::type_complexity, reason = "corpus program")]
pub fn shared_stream_two_slices<'a>(
    input: Stream<u32, P<'a>, Unbounded>,
) -> (Stream<Vec<u32>, P<'a>, Unbounded>, Stream<Vec<u32>, P<'a>, Unbounded>) {
    let a = sliced! {
        let batch = use::batch(input.clone(), nondet!(/** verif */));
        batch.collect_vec().into_stream()
    };
    let b = sliced! {
        let batch = use::batch(input, nondet!(/** verif */));
        batch.collect_vec().into_stream()
    };
    (a, b)
}

/// P10: one singleton snapshotted by two slices (each also batches the shared input stream).
/// Record: (batch contents, count snapshot).
#[expect(clippy::type_complexity, reason = "corpus program")]
pub fn shared_snapshot_two_slices<'a>(
    input: Stream<u32, P<'a>, Unbounded>,
) -> (Stream<(Vec<u32>, usize), P<'a>, Unbounded>, Stream<(Vec<u32>, usize), P<'a>, Unbounded>) {
    let total = input.clone().count();
    let a = sliced! {
        let batch = use::batch(input.clone(), nondet!(/** verif */));
        let snap = use::snapshot(total.clone(), nondet!(/** verif */));
        batch.collect_vec().zip(snap).into_stream()
    };
    let b = sliced! {
        let batch = use::batch(input, nondet!(/** verif */));
        let snap = use::snapshot(total, nondet!(/** verif */));
        batch.collect_vec().zip(snap).into_stream()
    };
    (a, b)
}

/// P11: one keyed stream with an ordered and an unordered consumer slice (values of the
/// unordered record are sorted per key; the checker compares them as multisets).
#[expect(clippy::type_complexity, reason = "corpus program")]
pub fn shared_keyed_ordered_and_unordered<'a>(
    input: Stream<(u32, u32), P<'a>, Unbounded>,
) -> (Stream<KeyedRecord, P<'a>, Unbounded>, Stream<KeyedRecord, P<'a>, Unbounded>) {
    let keyed = input.into_keyed();
    (keyed_slice_ordered(keyed.clone()), keyed_slice_unordered(keyed.weaken_ordering::<NoOrder>()))
}
