//! C31 corpus: `sliced!` programs whose body emits one record per slice.
use hydro_lang::prelude::*;

/// Location tag of the single process used by the corpus.
pub struct Node;

/// batch + snapshot(count of the same input) + `use::state` (running sum of batch sizes).
/// Emits per slice: (batch contents, count snapshot, state read at slice start, state written).
pub fn batch_snapshot_state<'a>(
    input: Stream<u32, Process<'a, Node>, Unbounded>,
) -> Stream<(Vec<u32>, usize, usize, usize), Process<'a, Node>, Unbounded> {
    let total = input.clone().count();
    sliced! {
        let batch = use::batch(input, nondet!(/** verif: all batchings enumerated */));
        let snap = use::snapshot(total, nondet!(/** verif: all snapshots enumerated */));
        let mut seen = use::state(|l| l.singleton(q!(0usize)));

        let contents = batch.clone().fold(q!(|| Vec::new()), q!(|acc: &mut Vec<u32>, v| acc.push(v)));
        let new_seen = seen.clone().zip(batch.count()).map(q!(|(a, b)| a + b));
        let out = contents
            .zip(snap)
            .zip(seen.zip(new_seen.clone()))
            .map(q!(|((c, s), (st_in, st_out))| (c, s, st_in, st_out)));
        seen = new_seen;
        out.into_stream()
    }
}
