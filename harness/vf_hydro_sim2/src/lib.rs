//! Hydro programs simulated by the `vf_hydro_sim2` checker (C31, C34, C39, C40).
//! All `q!` code lives here (the simulator's dylib is compiled against this lib through trybuild).
#[cfg(stageleft_runtime)]
hydro_lang::setup!();

pub mod atomics;
pub mod c41progs;
pub mod slices;
