//! Engine F (part 2): C31, C34, C39, C40 — the repo's simulator as the controlled scheduler.
//!
//! C31/C34/C39: `CompiledSim::exhaustive` (the repo's own exhaustive decision enumeration) over
//! enumerated inputs; every execution's observations are recorded by the test body and judged by
//! an oracle outside the simulator. C40: hook H3 (`verif_run_with_driver`) with a recording driver
//! and the deviation-bounded explorer.
mod c31;
mod c34;
mod c39;
mod c40;
mod c41;
mod driver;

use std::sync::Mutex;

use hydro_lang::sim::compiled::CompiledSim;
use vf_explore::{Report, cli, quiet_panics};

/// Shared recorder filled by test bodies (RefUnwindSafe, unlike `RefCell`).
pub struct Rec<T>(pub Mutex<Vec<T>>);
impl<T> Rec<T> {
    pub fn new() -> Self {
        Rec(Mutex::new(Vec::new()))
    }
    pub fn push(&self, t: T) {
        self.0.lock().unwrap_or_else(|e| e.into_inner()).push(t);
    }
    pub fn take(&self) -> Vec<T> {
        std::mem::take(&mut *self.0.lock().unwrap_or_else(|e| e.into_inner()))
    }
}

/// Runs the repo's exhaustive search; a panic escaping it (assertion inside the simulator, the
/// program, or a receive that found the stream ended) is returned as `Err(message)`.
pub fn exhaustive(
    sim: &CompiledSim,
    body: impl AsyncFnMut() + std::panic::RefUnwindSafe,
) -> Result<usize, String> {
    vf_explore::catch(|| sim.exhaustive(body))
}

pub fn machinery(msg: &str) -> ! {
    println!("MACHINERY-ERROR: {msg}");
    std::process::exit(2);
}

fn main() {
    let cli = cli();
    quiet_panics();
    // The simulator build looks for the crate through CARGO_MANIFEST_DIR or the working directory.
    if std::env::var_os("CARGO_MANIFEST_DIR").is_none() {
        // SAFETY: single-threaded at this point.
        unsafe { std::env::set_var("CARGO_MANIFEST_DIR", env!("CARGO_MANIFEST_DIR")) };
    }
    if std::env::var_os("RUSTFLAGS").is_some() {
        machinery("RUSTFLAGS is set; hydro_lang's simulator build would switch strategy");
    }
    if let Ok(w) = std::env::var("VF_SIM2_WORKER") {
        c40::worker(&w);
        return;
    }
    let mut rep = Report::new(&cli.property, &cli.tier, "vf_hydro_sim2");
    let thorough = rep.thorough();
    let replay = cli.replay.as_ref().map(|p| {
        let txt = std::fs::read_to_string(p).unwrap_or_else(|e| machinery(&format!("cannot read replay {p}: {e}")));
        let v: vf_explore::Value = vf_explore::serde_json::from_str(&txt).unwrap_or_else(|e| machinery(&format!("bad replay json: {e}")));
        v["case"].clone()
    });
    // Panics of the subject are caught per case inside the engines; anything that escapes to
    // here (flow construction, simulator compilation, harness bug) is a machinery error.
    let r = vf_explore::catch(std::panic::AssertUnwindSafe(|| match cli.property.as_str() {
        "C31" => c31::run(&mut rep, thorough, replay),
        "C34" => c34::run(&mut rep, thorough, replay),
        "C39" => c39::run(&mut rep, thorough, replay),
        "C40" => c40::run(&mut rep, thorough, replay),
        "C41" => c41::run(&mut rep, thorough, replay),
        other => machinery(&format!("vf_hydro_sim2 does not serve property {other}")),
    }));
    if let Err(m) = r {
        machinery(&format!("engine panicked outside a simulated case: {m}"));
    }
    rep.finish();
}
