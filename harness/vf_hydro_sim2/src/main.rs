use hydro_lang::prelude::*;
use vf_hydro_sim2::slices;

fn main() {
    let t0 = std::time::Instant::now();
    let mut flow = FlowBuilder::new();
    let node = flow.process::<slices::Node>();
    let (tx, input) = node.sim_input();
    let rx = slices::batch_snapshot_state(input).sim_output();
    let outs = std::sync::Mutex::new(std::collections::BTreeSet::new());
    let n = flow.sim().exhaustive(async || {
        tx.send(1);
        tx.send(2);
        tx.send(3);
        let all: Vec<(Vec<u32>, usize, usize, usize)> = rx.collect().await;
        outs.lock().unwrap().insert(all);
    });
    let outs = outs.into_inner().unwrap();
    println!("{n} instances, {} outs, {:?}", outs.len(), t0.elapsed());
    for o in outs.iter().take(10) {
        println!("{o:?}");
    }
}
