//! vf_lat — engine A-val for the `lattices` crate: C01, C02, C03, C06 decided by exhaustive
//! enumeration of complete small universes of every concrete lattice type in `table.rs`.
//!
//!   vf_lat --property C01|C02|C03|C06 --tier quick|thorough [--replay <file>]
mod checks;
mod model;
mod table;
mod val;

use std::collections::BTreeMap;
use std::sync::Mutex;
use std::sync::atomic::{AtomicUsize, Ordering};

use vf_explore::{Report, Stats, Value, cli, json, ncpu, quiet_panics};

use checks::weight;
use val::P;

const PROPS: [&str; 4] = ["C01", "C02", "C03", "C06"];

fn texts(prop: &str) -> (&'static str, &'static str) {
    match prop {
        "C01" => (
            "per table line: the COMPLETE universe of the concrete type over the stated domain (all sets over e elements, all maps over k keys incl. bottom-valued entries, all vecs up to length l, all forests reachable by <= l unions plus explicit self-loop roots, all well-formed tombstone replicas, u8 chains over {0,1,2,255}), then every single / ordered pair / ordered triple of values; for pairs of representations every (receiver, delta) pair, every (receiver, delta, delta) and (receiver, receiver, delta) triple. A pair is non-trivial when both operands are non-bottom and differ in the model; distinct non-trivial = distinct (type, model x, model y).",
            "idempotence, commutativity, associativity of the real Merge::merge_owned, each judged twice: under the type's own PartialEq and under the abstraction alpha into an independent model (BTreeSet / BTreeMap with bottoms erased / Option / tuples / partitions); delta forms: (x⊔d)⊔d = x⊔d, (x⊔d1)⊔d2 = (x⊔d2)⊔d1, (x⊔y)⊔d = x⊔(y⊔d), x⊔y (in T) = y⊔x (in U), result is a model upper bound; Point: unequal merge must panic, equal must not",
        ),
        "C02" => (
            "same universes as C01; every ordered (receiver, delta) pair of every type and of every (receiver representation, delta representation) line. Non-trivial: receiver and delta both non-bottom; distinct non-trivial = distinct (type, model receiver, model delta).",
            "the bool returned by the real Merge::merge equals (alpha(after) != alpha(before)); equals !(alpha(delta) <= alpha(before)) in the merge-derived model order; true implies alpha(before) < alpha(after) strictly; and (after == before under the type's own PartialEq) iff the flag is false",
        ),
        "C03" => (
            "same universes; every value (is_bot / is_top / reflexivity / Default), every ordered pair (partial_cmp, ==, !=, <, <=, >, >=, duality, antisymmetry, a<=b iff the real merge of a into b leaves alpha(b) unchanged), every ordered triple (transitivity of <=, <, >, == on the table of the real partial_cmp / == results, counted as transitions not evaluations); for pairs of representations every cross pair in both directions and every T-U-T / U-T-U triple. Non-trivial pair: the two model values differ.",
            "partial_cmp equals the order derived from the model join (a <= b iff join(a,b) = b); == is the induced equivalence; is_bot(x) implies x below every enumerated value and the least enumerated value must report is_bot; is_top(x) implies every enumerated value is below x (sound for truncated universes), and the greatest value must report is_top only where the universe contains the type's true top (u8/bool/() chains, WithTop, Conflict, Point and products thereof); T::default().is_bot() and default below everything",
        ),
        _ => (
            "every value of the complete universe of every type with Atomize (SetUnion hash/btree, MapUnion over atomizable values incl. nested maps / WithBot / WithTop / UnionFind values, UnionFind hash/btree incl. explicit self-loop roots, WithBot, WithTop, ()). Non-trivial: value with >= 2 atoms.",
            "no atom is_bot (real is_bot and model); atoms empty iff is_bot(value) (real) and iff model-bottom; merging the atoms into Default with the real Merge reproduces the value under the type's own == and under alpha; the model join of alpha(atoms) equals alpha(value)",
        ),
    }
}

fn p_of(v: &Value) -> P {
    let a = v.as_array().expect("p");
    P { k: a[0].as_u64().unwrap() as u8, e: a[1].as_u64().unwrap() as u8, l: a[2].as_u64().unwrap() as u8 }
}

fn replay(prop: &str, file: &str) -> ! {
    let txt = std::fs::read_to_string(file).unwrap_or_else(|e| {
        println!("MACHINERY-ERROR: cannot read replay file {file}: {e}");
        std::process::exit(2)
    });
    let v: Value = vf_explore::serde_json::from_str(&txt).expect("replay file is not JSON");
    let case = &v["case"];
    let section = case["section"].as_str().expect("case.section");
    let group = case["group"].as_str().expect("case.group");
    let idx: Vec<usize> = case["idx"].as_array().expect("case.idx").iter().map(|x| x.as_u64().unwrap() as usize).collect();
    let p = p_of(&case["p"]);
    let prop = case["property"].as_str().unwrap_or(prop);
    let tab = table::table();
    let Some(e) = tab.iter().find(|e| e.job.section() == section) else {
        println!("MACHINERY-ERROR: no table line for section {section}");
        std::process::exit(2)
    };
    let (shows, fails) = e.job.case(prop, p, group, &idx);
    println!("replay {prop} {section} group={group} idx={idx:?} p={p:?}");
    println!("  values: {}", shows.join(" | "));
    if let Some(exp) = case["values"].as_array() {
        let exp: Vec<String> = exp.iter().map(|x| x.as_str().unwrap_or("").to_string()).collect();
        if exp != shows {
            println!("MACHINERY-ERROR: universe order changed: replay expected values {exp:?}");
            std::process::exit(2);
        }
    }
    if fails.is_empty() {
        println!("  observed: no failure (property holds on this case)");
        std::process::exit(0);
    }
    for f in &fails {
        println!("  observed: {}: {}", f.check, f.what);
    }
    println!("VIOLATION property={prop} replay={file}");
    std::process::exit(1);
}

fn main() {
    let cli = cli();
    quiet_panics();
    let prop = cli.property.clone();
    if !PROPS.contains(&prop.as_str()) {
        println!("MACHINERY-ERROR: vf_lat serves C01, C02, C03, C06 (got {prop})");
        std::process::exit(2);
    }
    if let Some(f) = &cli.replay {
        replay(&prop, f);
    }
    let thorough = cli.tier == "thorough";
    let mut rep = Report::new(&prop, &cli.tier, "vf_lat");
    let tab = table::table();

    // plan: (entry, shard, nshards, weight)
    let threads = ncpu().min(16);
    let mut tasks: Vec<(usize, usize, usize, u64)> = vec![];
    let mut sizes: BTreeMap<String, Value> = BTreeMap::new();
    let mut lookups: u64 = 0;
    {
        let mut seen = std::collections::BTreeSet::new();
        for (ei, e) in tab.iter().enumerate() {
            let p = if thorough { e.t } else { e.q };
            let groups = e.job.groups(&prop, p);
            if groups.is_empty() {
                continue;
            }
            if !seen.insert(e.job.section()) {
                println!("MACHINERY-ERROR: duplicate table section {}", e.job.section());
                std::process::exit(2);
            }
            let w = weight(&groups);
            lookups += groups.iter().filter(|g| g.table_lookup).map(|g| g.dims.iter().map(|d| *d as u64).product::<u64>()).sum::<u64>();
            let nsh = if w > 150_000 { threads } else { 1 };
            sizes.insert(
                e.job.section(),
                json!({"p": [p.k, p.e, p.l], "groups": groups.iter().map(|g| json!({"name": g.name, "dims": g.dims})).collect::<Vec<_>>(), "cases": w}),
            );
            for s in 0..nsh {
                tasks.push((ei, s, nsh, w / nsh as u64));
            }
        }
    }
    let mut order: Vec<usize> = (0..tasks.len()).collect();
    order.sort_by_key(|i| std::cmp::Reverse(tasks[*i].3));

    let results: Vec<Mutex<Option<Stats>>> = (0..tasks.len()).map(|_| Mutex::new(None)).collect();
    let next = AtomicUsize::new(0);
    std::thread::scope(|sc| {
        for _ in 0..threads {
            sc.spawn(|| {
                loop {
                    let n = next.fetch_add(1, Ordering::SeqCst);
                    if n >= order.len() {
                        break;
                    }
                    let ti = order[n];
                    let (ei, s, nsh, _) = tasks[ti];
                    let e = &tab[ei];
                    let p = if thorough { e.t } else { e.q };
                    let st = e.job.run(&prop, p, s, nsh);
                    *results[ti].lock().unwrap() = Some(st);
                }
            });
        }
    });

    let (rule, expl) = texts(&prop);
    rep.rule = rule.into();
    rep.explanation = expl.into();
    rep.assume("the abstraction function alpha (val.rs) and the model join (model.rs) are the trusted base; alpha reads only revealed representations, never the trait impls under test");
    rep.assume("universes are complete for the stated small domains only: u8 element/key domains of size k/e, u8 chains restricted to {0,1,2,255} (contains MIN and MAX), vec length <= l");
    rep.assume("well-formedness preconditions respected: ArraySet/ArrayMap/VecMap with distinct items/keys, tombstone replicas with live ∩ tomb = ∅, DomPair keys totally ordered (Max/Min), Point lattices hold one value, UnionFind receivers are forests reachable by union() (plus explicit self-loop roots), arbitrary edge lists only as deltas");
    rep.assume("SetUnion<Vec<_>> and the Vec/Roaring/FST tombstone variants have no PartialEq/PartialOrd: they appear only as deltas or are judged under alpha only");
    rep.bound("tier_domains", json!({"quick": "k=2 e=2 l=2 (nested: e=1)", "thorough": "up to k=3 e=3..4 l=3 per table line"}));
    rep.bound("u8_chain_values", json!(val::U8S));
    rep.bound("threads", threads);
    rep.bound("table_lines", sizes.len());
    rep.bound("c03_transitivity_cases_on_cmp_table", lookups);
    rep.bound("per_section", json!(sizes));

    // fold shards per table line, in table order (deterministic)
    let mut all_keys: Vec<String> = vec![];
    let mut ti = 0;
    println!("{:<100} {:>12} {:>10} {:>6}", "section", "evaluations", "outcomes", "viol");
    while ti < tasks.len() {
        let (ei, _, nsh, _) = tasks[ti];
        let mut st = Stats::new();
        for s in 0..nsh {
            let part = results[ti + s].lock().unwrap().take().expect("task result missing");
            st.merge(part);
        }
        ti += nsh;
        let name = tab[ei].job.section();
        println!("{:<100} {:>12} {:>10} {:>6}", name, st.evaluations, st.outcomes.len(), st.violations_total);
        for v in &st.violations {
            all_keys.push(v.key.clone());
        }
        rep.section(&name, st);
    }
    all_keys.sort();
    all_keys.dedup();
    if !all_keys.is_empty() {
        println!("violation keys (first {} per table line):", 8);
        for k in &all_keys {
            println!("  key: {k}");
        }
    }
    rep.bound("violation_keys_listed", json!(all_keys));
    rep.finish();
}
