//! Generic exhaustive checks for C01, C02, C03, C06.
//!
//! A `Job` is one line of the type table. It owns function pointers to the REAL trait methods of
//! the concrete type(s) (filled in by the table macros, where the trait bounds are checked), builds
//! the complete universe(s) for a domain `P`, and evaluates named *groups* of cases addressed by an
//! index tuple into the universe(s). `drive` enumerates every index tuple of every group; `case`
//! evaluates one tuple directly (used by `--replay`).
use std::cell::RefCell;
use std::cmp::Ordering::{self, *};

use vf_explore::{Stats, catch, hash_of, json};

use crate::model::{M, is_bot as m_is_bot, join as m_join, leq, mcmp, mshow};
use crate::val::{P, Val};

#[derive(Clone, PartialEq, Eq, Debug)]
pub struct Fail {
    pub check: &'static str,
    pub what: String,
}

#[derive(Default)]
pub struct Obs {
    pub fails: Vec<Fail>,
    pub outcome: Option<u64>,
    pub nontrivial: Option<u64>,
}
impl Obs {
    fn fail(&mut self, check: &'static str, what: String) {
        self.fails.push(Fail { check, what });
    }
}

pub struct Group {
    pub name: &'static str,
    pub dims: Vec<usize>,
    /// number of real-code executions per case is folded into `evaluations` as 1 case = 1 eval
    pub table_lookup: bool,
}

pub trait Job: Send + Sync {
    fn section(&self) -> String;
    fn types(&self) -> String;
    /// Groups (with dimensions) this job contributes to `prop` at domain `p`; empty = not involved.
    fn groups(&self, prop: &str, p: P) -> Vec<Group>;
    fn run(&self, prop: &str, p: P, shard: usize, nshards: usize) -> Stats;
    /// Evaluate one case directly. Returns (rendered values, failures).
    fn case(&self, prop: &str, p: P, group: &str, idx: &[usize]) -> (Vec<String>, Vec<Fail>);
}

pub fn weight(groups: &[Group]) -> u64 {
    groups.iter().map(|g| g.dims.iter().map(|d| *d as u64).product::<u64>()).sum()
}

pub struct Meta {
    pub section: String,
    pub types: String,
    pub prop: String,
    pub p: P,
}

fn machinery(msg: String) -> ! {
    println!("MACHINERY-ERROR: {msg}");
    std::process::exit(2);
}

/// Enumerate every index tuple of every group (first index sharded), evaluate, judge.
pub fn drive(
    meta: &Meta,
    groups: &[Group],
    shard: usize,
    nshards: usize,
    eval: &dyn Fn(&str, &[usize]) -> Obs,
    shows: &dyn Fn(&str, &[usize]) -> Vec<String>,
) -> Stats {
    let mut st = Stats::new();
    for g in groups {
        if g.dims.iter().any(|d| *d == 0) {
            continue;
        }
        let mut idx = vec![0usize; g.dims.len()];
        'outer: loop {
            if idx[0] % nshards == shard {
                let run = || eval(g.name, &idx);
                let obs = match catch(run) {
                    Ok(o) => o,
                    Err(msg) => Obs { fails: vec![Fail { check: "panic", what: msg }], ..Default::default() },
                };
                if g.table_lookup {
                    st.transition();
                } else {
                    st.eval();
                    st.state();
                    st.transition();
                    st.trace();
                }
                if let Some(o) = obs.outcome {
                    st.outcomes.insert(o);
                }
                if let Some(o) = obs.nontrivial {
                    st.distinct.insert(o);
                }
                if !obs.fails.is_empty() {
                    // re-execute once; a non-reproducing failure is a machinery error
                    let again = match catch(|| eval(g.name, &idx)) {
                        Ok(o) => o.fails,
                        Err(msg) => vec![Fail { check: "panic", what: msg }],
                    };
                    if again != obs.fails {
                        machinery(format!(
                            "non-reproducing failure in {} group {} idx {:?}: {:?} vs {:?}",
                            meta.section, g.name, idx, obs.fails, again
                        ));
                    }
                    let sh = shows(g.name, &idx);
                    for f in &obs.fails {
                        let key = format!("{}:{}:{}", f.check, meta.types, sh.join("|"));
                        let what = format!("[{}] {} on {} values {}: {}", meta.prop, f.check, meta.types, sh.join(" | "), f.what);
                        st.violation(
                            key,
                            what,
                            json!({"section": meta.section, "property": meta.prop, "group": g.name, "idx": idx,
                                   "p": [meta.p.k, meta.p.e, meta.p.l], "values": sh, "check": f.check,
                                   "observed": f.what}),
                        );
                    }
                }
            }
            // odometer, last index fastest
            let mut d = idx.len();
            loop {
                if d == 0 {
                    break 'outer;
                }
                d -= 1;
                idx[d] += 1;
                if idx[d] < g.dims[d] {
                    break;
                }
                idx[d] = 0;
            }
        }
    }
    st
}

fn mix(a: u64, b: u64) -> u64 {
    (a ^ b.rotate_left(23)).wrapping_mul(0x9E37_79B9_7F4A_7C15).rotate_left(17) ^ b
}

fn rev(o: Option<Ordering>) -> Option<Ordering> {
    o.map(Ordering::reverse)
}

fn so(o: Option<Ordering>) -> &'static str {
    match o {
        None => "None",
        Some(Less) => "Less",
        Some(Equal) => "Equal",
        Some(Greater) => "Greater",
    }
}

// ---------------------------------------------------------------------------------------------
// function-pointer bundles to the real trait methods

pub struct Ops<T> {
    pub merge: Option<fn(&mut T, T) -> bool>,
    pub eq: Option<fn(&T, &T) -> bool>,
    pub ne: Option<fn(&T, &T) -> bool>,
    pub pc: Option<fn(&T, &T) -> Option<Ordering>>,
    /// [lt, le, gt, ge]
    pub rel: Option<[fn(&T, &T) -> bool; 4]>,
    pub is_bot: Option<fn(&T) -> bool>,
    pub is_top: Option<fn(&T) -> bool>,
    pub dflt: Option<fn() -> T>,
}
impl<T> Clone for Ops<T> {
    fn clone(&self) -> Self {
        *self
    }
}
impl<T> Copy for Ops<T> {}
impl<T> Ops<T> {
    pub const NONE: Ops<T> =
        Ops { merge: None, eq: None, ne: None, pc: None, rel: None, is_bot: None, is_top: None, dflt: None };
}

pub struct XOps<T, U> {
    pub merge_tu: Option<fn(&mut T, U) -> bool>,
    pub merge_ut: Option<fn(&mut U, T) -> bool>,
    pub eq_tu: Option<fn(&T, &U) -> bool>,
    pub eq_ut: Option<fn(&U, &T) -> bool>,
    pub pc_tu: Option<fn(&T, &U) -> Option<Ordering>>,
    pub pc_ut: Option<fn(&U, &T) -> Option<Ordering>>,
    pub rel_tu: Option<[fn(&T, &U) -> bool; 4]>,
}
impl<T, U> Clone for XOps<T, U> {
    fn clone(&self) -> Self {
        *self
    }
}
impl<T, U> Copy for XOps<T, U> {}
impl<T, U> XOps<T, U> {
    pub const NONE: XOps<T, U> =
        XOps { merge_tu: None, merge_ut: None, eq_tu: None, eq_ut: None, pc_tu: None, pc_ut: None, rel_tu: None };
}

struct Uni<T> {
    u: Vec<T>,
    a: Vec<M>,
    h: Vec<u64>,
}
impl<T: Val> Uni<T> {
    fn new(p: P) -> Self {
        let u = T::uni(p);
        let a: Vec<M> = u.iter().map(|x| x.alpha()).collect();
        let h = a.iter().map(hash_of).collect();
        // harness self-check: canonical renderings must be unique (they are part of violation keys)
        let mut seen = std::collections::BTreeSet::new();
        for x in &u {
            if !seen.insert(x.show()) {
                machinery(format!("universe of {} contains the rendering {} twice", T::tname(), x.show()));
            }
        }
        Uni { u, a, h }
    }
    fn n(&self) -> usize {
        self.u.len()
    }
}

fn merged<T: Clone, U: Clone>(f: fn(&mut T, U) -> bool, x: &T, d: &U) -> T {
    let mut r = x.clone();
    f(&mut r, d.clone());
    r
}

/// x and y must be the same lattice value: under the type's own `==` (if it has one) and under alpha.
fn same<T: Val>(o: &mut Obs, check_eq: &'static str, check_alpha: &'static str, eq: Option<fn(&T, &T) -> bool>, l: &T, r: &T, ctx: &str) {
    if let Some(eq) = eq {
        if !eq(l, r) {
            o.fail(check_eq, format!("{ctx}: lhs {} != rhs {} under the type's own ==", l.show(), r.show()));
        }
    }
    let (al, ar) = (l.alpha(), r.alpha());
    if al != ar {
        o.fail(check_alpha, format!("{ctx}: lhs {} (model {}) vs rhs {} (model {})", l.show(), mshow(&al), r.show(), mshow(&ar)));
    }
}

/// C02 oracle for one (receiver, delta) pair.
fn flag_case<T: Val, U: Val>(
    o: &mut Obs,
    sect: u64,
    merge: fn(&mut T, U) -> bool,
    eq: Option<fn(&T, &T) -> bool>,
    x: &T,
    ax: &M,
    d: &U,
    ad: &M,
) {
    let mut r = x.clone();
    let changed = merge(&mut r, d.clone());
    let after = r.alpha();
    let grew = after != *ax;
    if changed != grew {
        o.fail("flag_vs_value", format!("merge returned {changed} but model value {} -> {}", mshow(ax), mshow(&after)));
    }
    let below = leq(ad, ax);
    if changed == below {
        o.fail("flag_vs_order", format!("merge returned {changed} but (delta <= receiver) is {below} in the model order"));
    }
    if changed && !(leq(ax, &after) && *ax != after) {
        o.fail("flag_growth", format!("merge returned true but {} is not strictly above {}", mshow(&after), mshow(ax)));
    }
    if let Some(eq) = eq {
        let unchanged_eq = eq(&r, &x.clone());
        if unchanged_eq == changed {
            o.fail("flag_vs_eq", format!("merge returned {changed} but (after == before) is {unchanged_eq} under the type's own =="));
        }
    }
    o.outcome = Some(mix(hash_of(&after), changed as u64));
    if !m_is_bot(ad) && !m_is_bot(ax) {
        o.nontrivial = Some(mix(sect, mix(hash_of(ax), hash_of(ad))));
    }
}

// ---------------------------------------------------------------------------------------------
// one type

pub struct Own<T: Val> {
    pub ops: Ops<T>,
}

struct OwnEnv<T> {
    un: Uni<T>,
    sect: u64,
    ops: Ops<T>,
    cache: RefCell<Option<((usize, usize), T)>>,
    pct: RefCell<Option<Vec<Option<Ordering>>>>,
    eqt: RefCell<Option<Vec<bool>>>,
}

impl<T: Val> Own<T> {
    fn env(&self, p: P) -> OwnEnv<T> {
        OwnEnv {
            un: Uni::new(p),
            sect: hash_of(&T::tname()),
            ops: self.ops,
            cache: RefCell::new(None),
            pct: RefCell::new(None),
            eqt: RefCell::new(None),
        }
    }
}

impl<T: Val> OwnEnv<T> {
    fn pc_table(&self) {
        if self.pct.borrow().is_some() {
            return;
        }
        let pc = self.ops.pc.unwrap();
        let eq = self.ops.eq.unwrap();
        let n = self.un.n();
        let mut t = Vec::with_capacity(n * n);
        let mut e = Vec::with_capacity(n * n);
        for i in 0..n {
            for j in 0..n {
                // fresh clones: some comparisons (union-find) mutate through `&self`
                let (a, b) = (self.un.u[i].clone(), self.un.u[j].clone());
                t.push(pc(&a, &b));
                e.push(eq(&a, &b));
            }
        }
        *self.pct.borrow_mut() = Some(t);
        *self.eqt.borrow_mut() = Some(e);
    }

    fn eval(&self, prop: &str, group: &str, idx: &[usize]) -> Obs {
        let mut o = Obs::default();
        let (u, a, h) = (&self.un.u, &self.un.a, &self.un.h);
        let ops = &self.ops;
        match (prop, group) {
            ("C01", "idem") => {
                let m = ops.merge.unwrap();
                let x = &u[idx[0]];
                let r = merged(m, x, x);
                same(&mut o, "idem_eq", "idem_alpha", ops.eq, &r, x, "x ⊔ x vs x");
                o.outcome = Some(hash_of(&r.alpha()));
            }
            ("C01", "comm") => {
                let m = ops.merge.unwrap();
                let (x, y) = (&u[idx[0]], &u[idx[1]]);
                let xy = merged(m, x, y);
                let yx = merged(m, y, x);
                same(&mut o, "comm_eq", "comm_alpha", ops.eq, &xy, &yx, "x ⊔ y vs y ⊔ x");
                let ar = xy.alpha();
                o.outcome = Some(hash_of(&ar));
                // non-trivial: the two operands are incomparable or strictly ordered distinct values
                if a[idx[0]] != a[idx[1]] && !m_is_bot(&a[idx[0]]) && !m_is_bot(&a[idx[1]]) {
                    o.nontrivial = Some(mix(self.sect, mix(h[idx[0]], h[idx[1]])));
                }
            }
            ("C01", "assoc") => {
                let m = ops.merge.unwrap();
                let (i, j, k) = (idx[0], idx[1], idx[2]);
                let (x, y, z) = (&u[i], &u[j], &u[k]);
                let xy = {
                    let mut c = self.cache.borrow_mut();
                    match &*c {
                        Some((key, v)) if *key == (i, j) => v.clone(),
                        _ => {
                            let v = merged(m, x, y);
                            *c = Some(((i, j), v.clone()));
                            v
                        }
                    }
                };
                let yz = merged(m, y, z);
                let l = merged(m, x, &yz);
                let r = merged(m, &xy, z);
                same(&mut o, "assoc_eq", "assoc_alpha", ops.eq, &l, &r, "x ⊔ (y ⊔ z) vs (x ⊔ y) ⊔ z");
            }
            ("C02", "flag") => {
                let (i, j) = (idx[0], idx[1]);
                flag_case(&mut o, self.sect, ops.merge.unwrap(), ops.eq, &u[i], &a[i], &u[j], &a[j]);
            }
            ("C03", "unary") => {
                let i = idx[0];
                let x = &u[i];
                let least = a.iter().all(|y| leq(&a[i], y));
                let greatest = a.iter().all(|y| leq(y, &a[i]));
                // representations without IsBot/IsTop (MapUnion<VecMap>) are judged as "never claims"
                // in neither direction: skip by pretending the correct answer
                let ib = ops.is_bot.map(|f| f(x)).unwrap_or(least && T::BOT_IN_U);
                let it = ops.is_top.map(|f| f(x)).unwrap_or(greatest && T::TOP_IN_U);
                // sound for any universe: a claimed bottom / top must at least be least / greatest
                // among the enumerated values.
                if ib && !least {
                    let w = (0..u.len()).find(|j| !leq(&a[i], &a[*j])).unwrap();
                    o.fail("is_bot", format!("is_bot() = true but {} is not >= it (model {} vs {})", u[w].show(), mshow(&a[w]), mshow(&a[i])));
                }
                // only where the universe contains the type's bottom does "least in the universe"
                // mean "bottom of the type" (not for fixed-size representations / Conflict).
                if T::BOT_IN_U && least && !ib {
                    o.fail("is_bot", "is_bot() = false but the value is below every value of the universe (it is the bottom)".into());
                }
                if it && !greatest {
                    let w = (0..u.len()).find(|j| !leq(&a[*j], &a[i])).unwrap();
                    o.fail("is_top", format!("is_top() = true but {} is not <= it (model {} vs {})", u[w].show(), mshow(&a[w]), mshow(&a[i])));
                }
                if T::TOP_IN_U && greatest && !it {
                    o.fail("is_top", "is_top() = false but the value is the greatest element of the type".into());
                }
                // real comparisons run on clones: union-find comparisons path-compress through `&self`
                let pc = ops.pc.unwrap();
                let (x1, x2) = (x.clone(), x.clone());
                let r = pc(&x1, &x2);
                if r != Some(Equal) {
                    o.fail("refl", format!("partial_cmp(x, x) = {}", so(r)));
                }
                if !(ops.eq.unwrap())(&x1, &x2) {
                    o.fail("refl", "x == x is false".into());
                }
                o.outcome = Some(mix(ib as u64, it as u64));
                o.nontrivial = Some(mix(self.sect, h[i]));
            }
            ("C03", "cmp") => {
                let (i, j) = (idx[0], idx[1]);
                let (x, y) = (u[i].clone(), u[j].clone());
                let pc = ops.pc.unwrap();
                let got = pc(&x, &y);
                let want = mcmp(&a[i], &a[j]);
                if got != want {
                    o.fail("cmp", format!("partial_cmp = {} but the merge-derived model order says {}", so(got), so(want)));
                }
                let again = pc(&x, &y);
                if again != got {
                    o.fail("cmp_unstable", format!("partial_cmp returned {} then {} on the same operands", so(got), so(again)));
                }
                let back = pc(&u[j].clone(), &u[i].clone());
                if back != rev(got) {
                    o.fail("dual", format!("partial_cmp(a,b) = {} but partial_cmp(b,a) = {}", so(got), so(back)));
                }
                let e = (ops.eq.unwrap())(&x, &y);
                if e != (want == Some(Equal)) {
                    o.fail("eq", format!("a == b is {e} but the model says {}", so(want)));
                }
                if let Some(ne) = ops.ne {
                    if ne(&x, &y) == e {
                        o.fail("ne", format!("a != b and a == b are both {e}"));
                    }
                }
                if let Some([lt, le, gt, ge]) = ops.rel {
                    let obs = [lt(&x, &y), le(&x, &y), gt(&x, &y), ge(&x, &y)];
                    let exp = [got == Some(Less), matches!(got, Some(Less | Equal)), got == Some(Greater), matches!(got, Some(Greater | Equal))];
                    if obs != exp {
                        o.fail("rel_ops", format!("[<,<=,>,>=] = {:?} but partial_cmp = {}", obs, so(got)));
                    }
                }
                if matches!(got, Some(Less | Equal)) && matches!(back, Some(Less | Equal)) && !e {
                    o.fail("antisym", "a <= b and b <= a but a != b".into());
                }
                // the statement's own formulation, on the real merge: a <= b  <=>  b ⊔ a leaves b unchanged
                if let Some(m) = ops.merge {
                    let r = merged(m, &u[j], &u[i]);
                    let unchanged = r.alpha() == a[j];
                    if unchanged != matches!(got, Some(Less | Equal)) {
                        o.fail("le_vs_merge", format!("partial_cmp(a,b) = {} but merging a into b leaves b unchanged: {unchanged}", so(got)));
                    }
                }
                o.outcome = Some(hash_of(&so(got)));
                if a[i] != a[j] {
                    o.nontrivial = Some(mix(self.sect, mix(h[i], h[j])));
                }
            }
            ("C03", "trans") => {
                self.pc_table();
                let n = u.len();
                let t = self.pct.borrow();
                let t = t.as_ref().unwrap();
                let e = self.eqt.borrow();
                let e = e.as_ref().unwrap();
                let (i, j, k) = (idx[0], idx[1], idx[2]);
                let (ab, bc, ac) = (t[i * n + j], t[j * n + k], t[i * n + k]);
                let le = |o: Option<Ordering>| matches!(o, Some(Less | Equal));
                if le(ab) && le(bc) && !le(ac) {
                    o.fail("trans", format!("a <= b ({}) and b <= c ({}) but a vs c is {}", so(ab), so(bc), so(ac)));
                }
                if ab == Some(Less) && bc == Some(Less) && ac != Some(Less) {
                    o.fail("trans", format!("a < b and b < c but a vs c is {}", so(ac)));
                }
                if ab == Some(Greater) && bc == Some(Greater) && ac != Some(Greater) {
                    o.fail("trans", format!("a > b and b > c but a vs c is {}", so(ac)));
                }
                if e[i * n + j] && e[j * n + k] && !e[i * n + k] {
                    o.fail("trans_eq", "a == b and b == c but a != c".into());
                }
            }
            ("C03", "default") => {
                let d = (ops.dflt.unwrap())();
                let ad = d.alpha();
                if !(ops.is_bot.unwrap())(&d) {
                    o.fail("default_is_bot", format!("Default::default() = {} but is_bot() is false", d.show()));
                }
                if let Some(w) = (0..u.len()).find(|j| !leq(&ad, &a[*j])) {
                    o.fail("default_is_bot", format!("Default::default() = {} is not below {}", d.show(), u[w].show()));
                }
                o.outcome = Some(hash_of(&ad));
            }
            _ => machinery(format!("unknown group {prop}/{group} for {}", T::tname())),
        }
        o
    }
}

impl<T: Val> Job for Own<T> {
    fn section(&self) -> String {
        format!("own:{}", T::tname())
    }
    fn types(&self) -> String {
        T::tname()
    }
    fn groups(&self, prop: &str, p: P) -> Vec<Group> {
        let n = T::uni(p).len();
        let g = |name, dims: Vec<usize>| Group { name, dims, table_lookup: false };
        match prop {
            "C01" if self.ops.merge.is_some() => vec![g("idem", vec![n]), g("comm", vec![n, n]), g("assoc", vec![n, n, n])],
            "C02" if self.ops.merge.is_some() => vec![g("flag", vec![n, n])],
            "C03" if self.ops.pc.is_some() => {
                let mut v = vec![g("unary", vec![n]), g("cmp", vec![n, n]), Group { name: "trans", dims: vec![n, n, n], table_lookup: true }];
                if self.ops.dflt.is_some() {
                    v.push(g("default", vec![1]));
                }
                v
            }
            _ => vec![],
        }
    }
    fn run(&self, prop: &str, p: P, shard: usize, nshards: usize) -> Stats {
        let env = self.env(p);
        let meta = Meta { section: self.section(), types: self.types(), prop: prop.into(), p };
        let groups = self.groups(prop, p);
        let mut st = drive(&meta, &groups, shard, nshards, &|g, idx| env.eval(prop, g, idx), &|g, idx| {
            if g == "default" { vec!["default()".into()] } else { idx.iter().map(|i| env.un.u[*i].show()).collect() }
        });
        if shard == 0 && env.un.n() >= 9 {
            st.sample(|| {
                // one concrete executed case, written out
                let n = env.un.n();
                let (i, j) = (n / 2, n - 1);
                let (x, y) = (env.un.u[i].clone(), env.un.u[j].clone());
                let mut case = json!({"x": x.show(), "y": y.show(), "model_x": mshow(&env.un.a[i]), "model_y": mshow(&env.un.a[j])});
                if let Some(m) = env.ops.merge {
                    let mut r = x.clone();
                    let changed = m(&mut r, y.clone());
                    case["x_merge_y"] = json!(r.show());
                    case["changed"] = json!(changed);
                }
                if let Some(pc) = env.ops.pc {
                    case["partial_cmp"] = json!(so(pc(&x, &y)));
                    case["model_cmp"] = json!(so(mcmp(&env.un.a[i], &env.un.a[j])));
                }
                json!({"section": meta.section, "universe_size": n,
                    "distinct_model_values": env.un.a.iter().collect::<std::collections::BTreeSet<_>>().len(),
                    "first_values": env.un.u.iter().take(10).map(|x| x.show()).collect::<Vec<_>>(),
                    "case": case })
            });
        }
        st
    }
    fn case(&self, prop: &str, p: P, group: &str, idx: &[usize]) -> (Vec<String>, Vec<Fail>) {
        let env = self.env(p);
        let shows = if group == "default" { vec!["default()".into()] } else { idx.iter().map(|i| env.un.u[*i].show()).collect() };
        (shows, env.eval(prop, group, idx).fails)
    }
}

// ---------------------------------------------------------------------------------------------
// two representations: T is the receiver / left operand, U the delta / right operand

pub struct Cross<T: Val, U: Val> {
    pub t: Ops<T>,
    pub u: Ops<U>,
    pub x: XOps<T, U>,
}

struct CrossEnv<T, U> {
    t: Uni<T>,
    u: Uni<U>,
    sect: u64,
    to: Ops<T>,
    uo: Ops<U>,
    x: XOps<T, U>,
    tabs: RefCell<Option<[Vec<Option<Ordering>>; 4]>>,
}

impl<T: Val, U: Val> CrossEnv<T, U> {
    fn tables(&self) {
        if self.tabs.borrow().is_some() {
            return;
        }
        let (nt, nu) = (self.t.n(), self.u.n());
        let (ptt, puu, ptu, put) = (self.to.pc.unwrap(), self.uo.pc.unwrap(), self.x.pc_tu.unwrap(), self.x.pc_ut.unwrap());
        let mut tt = vec![];
        let mut tu = vec![];
        let mut ut = vec![];
        let mut uu = vec![];
        for i in 0..nt {
            for j in 0..nt {
                tt.push(ptt(&self.t.u[i].clone(), &self.t.u[j].clone()));
            }
            for j in 0..nu {
                tu.push(ptu(&self.t.u[i].clone(), &self.u.u[j].clone()));
            }
        }
        for i in 0..nu {
            for j in 0..nt {
                ut.push(put(&self.u.u[i].clone(), &self.t.u[j].clone()));
            }
            for j in 0..nu {
                uu.push(puu(&self.u.u[i].clone(), &self.u.u[j].clone()));
            }
        }
        *self.tabs.borrow_mut() = Some([tt, tu, ut, uu]);
    }

    fn eval(&self, prop: &str, group: &str, idx: &[usize]) -> Obs {
        let mut o = Obs::default();
        let (t, u) = (&self.t, &self.u);
        match (prop, group) {
            ("C01", "d_idem") => {
                let m = self.x.merge_tu.unwrap();
                let (x, d) = (&t.u[idx[0]], &u.u[idx[1]]);
                let xd = merged(m, x, d);
                let xdd = merged(m, &xd, d);
                same(&mut o, "delta_idem_eq", "delta_idem_alpha", self.to.eq, &xdd, &xd, "(x ⊔ d) ⊔ d vs x ⊔ d");
                // the merged value must be an upper bound of both operands in the model
                let ar = xd.alpha();
                if !leq(&t.a[idx[0]], &ar) || !leq(&u.a[idx[1]], &ar) {
                    o.fail("delta_upper_bound", format!("x ⊔ d = {} (model {}) is not above both operands", xd.show(), mshow(&ar)));
                }
                o.outcome = Some(hash_of(&ar));
                if !m_is_bot(&t.a[idx[0]]) && !m_is_bot(&u.a[idx[1]]) && t.a[idx[0]] != u.a[idx[1]] {
                    o.nontrivial = Some(mix(self.sect, mix(t.h[idx[0]], u.h[idx[1]])));
                }
            }
            ("C01", "d_comm") => {
                let m = self.x.merge_tu.unwrap();
                let (x, d1, d2) = (&t.u[idx[0]], &u.u[idx[1]], &u.u[idx[2]]);
                let l = merged(m, &merged(m, x, d1), d2);
                let r = merged(m, &merged(m, x, d2), d1);
                same(&mut o, "delta_order_eq", "delta_order_alpha", self.to.eq, &l, &r, "(x ⊔ d1) ⊔ d2 vs (x ⊔ d2) ⊔ d1");
            }
            ("C01", "d_assoc") => {
                let m = self.x.merge_tu.unwrap();
                let mt = self.to.merge.unwrap();
                let (x, y, d) = (&t.u[idx[0]], &t.u[idx[1]], &u.u[idx[2]]);
                let l = merged(m, &merged(mt, x, y), d);
                let r = merged(mt, x, &merged(m, y, d));
                same(&mut o, "delta_assoc_eq", "delta_assoc_alpha", self.to.eq, &l, &r, "(x ⊔ y) ⊔ d vs x ⊔ (y ⊔ d)");
            }
            ("C01", "x_comm") => {
                let (mtu, mut_) = (self.x.merge_tu.unwrap(), self.x.merge_ut.unwrap());
                let (x, y) = (&t.u[idx[0]], &u.u[idx[1]]);
                let xy = merged(mtu, x, y);
                let yx = merged(mut_, y, x);
                let (al, ar) = (xy.alpha(), yx.alpha());
                if al != ar {
                    o.fail("cross_comm_alpha", format!("x ⊔ y = {} (model {}) but y ⊔ x = {} (model {})", xy.show(), mshow(&al), yx.show(), mshow(&ar)));
                }
                if let Some(eq) = self.x.eq_tu {
                    if !eq(&xy, &yx) {
                        o.fail("cross_comm_eq", format!("x ⊔ y = {} != y ⊔ x = {} under the cross-representation ==", xy.show(), yx.show()));
                    }
                }
                o.outcome = Some(hash_of(&al));
            }
            ("C02", "flag") => {
                let (i, j) = (idx[0], idx[1]);
                flag_case(&mut o, self.sect, self.x.merge_tu.unwrap(), self.to.eq, &t.u[i], &t.a[i], &u.u[j], &u.a[j]);
            }
            ("C02", "flag_rev") => {
                let (i, j) = (idx[0], idx[1]);
                flag_case(&mut o, !self.sect, self.x.merge_ut.unwrap(), self.uo.eq, &u.u[i], &u.a[i], &t.u[j], &t.a[j]);
            }
            ("C03", "cmp") => {
                let (i, j) = (idx[0], idx[1]);
                let (x, y) = (t.u[i].clone(), u.u[j].clone());
                let got = (self.x.pc_tu.unwrap())(&x, &y);
                let want = mcmp(&t.a[i], &u.a[j]);
                if got != want {
                    o.fail("cross_cmp", format!("partial_cmp = {} but the merge-derived model order says {}", so(got), so(want)));
                }
                if let Some(put) = self.x.pc_ut {
                    let back = put(&u.u[j].clone(), &t.u[i].clone());
                    if back != rev(want) {
                        o.fail("cross_cmp_rev", format!("partial_cmp(b,a) = {} but the model says {}", so(back), so(rev(want))));
                    }
                }
                if let Some(eq) = self.x.eq_tu {
                    let e = eq(&x, &y);
                    if e != (want == Some(Equal)) {
                        o.fail("cross_eq", format!("a == b is {e} but the model says {}", so(want)));
                    }
                }
                if let Some(eq) = self.x.eq_ut {
                    let e = eq(&y, &x);
                    if e != (want == Some(Equal)) {
                        o.fail("cross_eq_rev", format!("b == a is {e} but the model says {}", so(want)));
                    }
                }
                if let Some([lt, le, gt, ge]) = self.x.rel_tu {
                    let obs = [lt(&x, &y), le(&x, &y), gt(&x, &y), ge(&x, &y)];
                    let exp = [got == Some(Less), matches!(got, Some(Less | Equal)), got == Some(Greater), matches!(got, Some(Greater | Equal))];
                    if obs != exp {
                        o.fail("cross_rel_ops", format!("[<,<=,>,>=] = {:?} but partial_cmp = {}", obs, so(got)));
                    }
                }
                o.outcome = Some(hash_of(&so(got)));
                if t.a[i] != u.a[j] {
                    o.nontrivial = Some(mix(self.sect, mix(t.h[i], u.h[j])));
                }
            }
            ("C03", "trans_tut") | ("C03", "trans_utu") => {
                self.tables();
                let tabs = self.tabs.borrow();
                let [tt, tu, ut, uu] = tabs.as_ref().unwrap();
                let (nt, nu) = (t.n(), u.n());
                let (i, j, k) = (idx[0], idx[1], idx[2]);
                let (ab, bc, ac) = if group == "trans_tut" {
                    (tu[i * nu + j], ut[j * nt + k], tt[i * nt + k])
                } else {
                    (ut[i * nt + j], tu[j * nu + k], uu[i * nu + k])
                };
                let le = |o: Option<Ordering>| matches!(o, Some(Less | Equal));
                if le(ab) && le(bc) && !le(ac) {
                    o.fail("cross_trans", format!("a <= b ({}) and b <= c ({}) but a vs c is {}", so(ab), so(bc), so(ac)));
                }
                let ge = |o: Option<Ordering>| matches!(o, Some(Greater | Equal));
                if ge(ab) && ge(bc) && !ge(ac) {
                    o.fail("cross_trans", format!("a >= b ({}) and b >= c ({}) but a vs c is {}", so(ab), so(bc), so(ac)));
                }
                if ab == Some(Equal) && bc == Some(Equal) && ac != Some(Equal) {
                    o.fail("cross_trans", format!("a == b and b == c but a vs c is {}", so(ac)));
                }
            }
            _ => machinery(format!("unknown group {prop}/{group} for {}~{}", T::tname(), U::tname())),
        }
        o
    }

    fn shows(&self, group: &str, idx: &[usize]) -> Vec<String> {
        let t = |i: usize| self.t.u[i].show();
        let u = |i: usize| self.u.u[i].show();
        match group {
            "d_idem" | "x_comm" | "flag" | "cmp" => vec![t(idx[0]), u(idx[1])],
            "flag_rev" => vec![u(idx[0]), t(idx[1])],
            "d_comm" => vec![t(idx[0]), u(idx[1]), u(idx[2])],
            "d_assoc" => vec![t(idx[0]), t(idx[1]), u(idx[2])],
            "trans_tut" => vec![t(idx[0]), u(idx[1]), t(idx[2])],
            "trans_utu" => vec![u(idx[0]), t(idx[1]), u(idx[2])],
            _ => vec![],
        }
    }
}

impl<T: Val, U: Val> Cross<T, U> {
    fn env(&self, p: P) -> CrossEnv<T, U> {
        CrossEnv {
            t: Uni::new(p),
            u: Uni::new(p),
            sect: hash_of(&(T::tname(), U::tname())),
            to: self.t,
            uo: self.u,
            x: self.x,
            tabs: RefCell::new(None),
        }
    }
}

impl<T: Val, U: Val> Job for Cross<T, U> {
    fn section(&self) -> String {
        format!("cross:{}~{}", T::tname(), U::tname())
    }
    fn types(&self) -> String {
        format!("{}~{}", T::tname(), U::tname())
    }
    fn groups(&self, prop: &str, p: P) -> Vec<Group> {
        let (nt, nu) = (T::uni(p).len(), U::uni(p).len());
        let g = |name, dims: Vec<usize>| Group { name, dims, table_lookup: false };
        let mut v = vec![];
        match prop {
            "C01" if self.x.merge_tu.is_some() => {
                v.push(g("d_idem", vec![nt, nu]));
                v.push(g("d_comm", vec![nt, nu, nu]));
                if self.t.merge.is_some() {
                    v.push(g("d_assoc", vec![nt, nt, nu]));
                }
                if self.x.merge_ut.is_some() {
                    v.push(g("x_comm", vec![nt, nu]));
                }
            }
            "C02" if self.x.merge_tu.is_some() => {
                v.push(g("flag", vec![nt, nu]));
                if self.x.merge_ut.is_some() {
                    v.push(g("flag_rev", vec![nu, nt]));
                }
            }
            "C03" if self.x.pc_tu.is_some() => {
                v.push(g("cmp", vec![nt, nu]));
                if self.x.pc_ut.is_some() && self.t.pc.is_some() && self.u.pc.is_some() {
                    v.push(Group { name: "trans_tut", dims: vec![nt, nu, nt], table_lookup: true });
                    v.push(Group { name: "trans_utu", dims: vec![nu, nt, nu], table_lookup: true });
                }
            }
            _ => {}
        }
        v
    }
    fn run(&self, prop: &str, p: P, shard: usize, nshards: usize) -> Stats {
        let env = self.env(p);
        let meta = Meta { section: self.section(), types: self.types(), prop: prop.into(), p };
        let groups = self.groups(prop, p);
        let mut st = drive(&meta, &groups, shard, nshards, &|g, idx| env.eval(prop, g, idx), &|g, idx| env.shows(g, idx));
        if shard == 0 && env.t.n() * env.u.n() >= 200 {
            st.sample(|| {
                let (i, j) = (env.t.n() / 2, env.u.n() - 1);
                let (x, d) = (env.t.u[i].clone(), env.u.u[j].clone());
                let mut case = json!({"receiver": x.show(), "delta": d.show()});
                if let Some(m) = env.x.merge_tu {
                    let mut r = x.clone();
                    let changed = m(&mut r, d.clone());
                    case["merged"] = json!(r.show());
                    case["changed"] = json!(changed);
                }
                if let Some(pc) = env.x.pc_tu {
                    case["partial_cmp"] = json!(so(pc(&x, &d)));
                }
                json!({"section": meta.section, "universe_sizes": [env.t.n(), env.u.n()],
                    "delta_values": env.u.u.iter().take(8).map(|x| x.show()).collect::<Vec<_>>(), "case": case })
            });
        }
        st
    }
    fn case(&self, prop: &str, p: P, group: &str, idx: &[usize]) -> (Vec<String>, Vec<Fail>) {
        let env = self.env(p);
        (env.shows(group, idx), env.eval(prop, group, idx).fails)
    }
}

// ---------------------------------------------------------------------------------------------
// atomization (C06)

pub struct Atoms<T: Val, A: Val> {
    pub atomize: fn(T) -> Vec<A>,
    pub merge_atom: fn(&mut T, A) -> bool,
    pub atom_is_bot: fn(&A) -> bool,
    pub is_bot: fn(&T) -> bool,
    pub dflt: fn() -> T,
    pub eq: fn(&T, &T) -> bool,
}

impl<T: Val, A: Val> Atoms<T, A> {
    fn eval(&self, un: &Uni<T>, idx: &[usize]) -> Obs {
        let mut o = Obs::default();
        let i = idx[0];
        let x = &un.u[i];
        let atoms = (self.atomize)(x.clone());
        for at in &atoms {
            if (self.atom_is_bot)(at) {
                o.fail("atom_is_bot", format!("atom {} has is_bot() = true", at.show()));
            }
            if m_is_bot(&at.alpha()) {
                o.fail("atom_is_bot_model", format!("atom {} is the bottom value in the model", at.show()));
            }
        }
        let ib = (self.is_bot)(x);
        if atoms.is_empty() != ib {
            o.fail("atoms_empty_vs_is_bot", format!("atomize() yields {} atoms but is_bot() = {ib}", atoms.len()));
        }
        let mb = m_is_bot(&un.a[i]);
        if atoms.is_empty() != mb {
            o.fail("atoms_empty_vs_bottom", format!("atomize() yields {} atoms but the value {} the bottom in the model", atoms.len(), if mb { "is" } else { "is not" }));
        }
        let mut r = (self.dflt)();
        let mut model = r.alpha();
        for at in &atoms {
            model = m_join(&model, &at.alpha());
            (self.merge_atom)(&mut r, at.clone());
        }
        if !(self.eq)(&r, &x.clone()) {
            o.fail("atoms_reform_eq", format!("merging the atoms [{}] into default gives {} != original under the type's own ==", atoms.iter().map(|a| a.show()).collect::<Vec<_>>().join(", "), r.show()));
        }
        let ar = r.alpha();
        if ar != un.a[i] {
            o.fail("atoms_reform_alpha", format!("merging the atoms [{}] into default gives {} (model {}), original model {}", atoms.iter().map(|a| a.show()).collect::<Vec<_>>().join(", "), r.show(), mshow(&ar), mshow(&un.a[i])));
        }
        // the atoms themselves (independently of the real merge) must join to the value in the model
        if model != un.a[i] {
            o.fail("atoms_join_model", format!("the model join of the atoms is {} but the value is {}", mshow(&model), mshow(&un.a[i])));
        }
        o.outcome = Some(mix(atoms.len() as u64, un.h[i]));
        if atoms.len() >= 2 {
            o.nontrivial = Some(mix(hash_of(&T::tname()), un.h[i]));
        }
        o
    }
}

impl<T: Val, A: Val> Job for Atoms<T, A> {
    fn section(&self) -> String {
        format!("atomize:{}", T::tname())
    }
    fn types(&self) -> String {
        T::tname()
    }
    fn groups(&self, prop: &str, p: P) -> Vec<Group> {
        if prop == "C06" { vec![Group { name: "atomize", dims: vec![T::uni(p).len()], table_lookup: false }] } else { vec![] }
    }
    fn run(&self, prop: &str, p: P, shard: usize, nshards: usize) -> Stats {
        let un = Uni::<T>::new(p);
        let meta = Meta { section: self.section(), types: self.types(), prop: prop.into(), p };
        let groups = self.groups(prop, p);
        let mut st = drive(&meta, &groups, shard, nshards, &|_g, idx| self.eval(&un, idx), &|_g, idx| vec![un.u[idx[0]].show()]);
        if shard == 0 {
            st.sample(|| {
                let ex = un.u.iter().max_by_key(|x| (self.atomize)((*x).clone()).len()).unwrap();
                json!({"section": meta.section, "universe_size": un.n(), "atom_type": A::tname(),
                    "example": ex.show(), "example_atoms": (self.atomize)(ex.clone()).iter().map(|a| a.show()).collect::<Vec<_>>() })
            });
        }
        st
    }
    fn case(&self, _prop: &str, p: P, _group: &str, idx: &[usize]) -> (Vec<String>, Vec<Fail>) {
        let un = Uni::<T>::new(p);
        (vec![un.u[idx[0]].show()], self.eval(&un, idx).fails)
    }
}

// ---------------------------------------------------------------------------------------------
// Point: merging unequal points must panic, equal must not (C01 statement)

pub struct PointPanics<F: Fn(u8, u8) -> bool + Send + Sync> {
    /// runs the real `Point::merge(Point(a), Point(b))`, returns the flag
    pub merge: F,
}
pub const POINT_VALUES: [u8; 4] = [0, 1, 2, 255];

impl<F: Fn(u8, u8) -> bool + Send + Sync> Job for PointPanics<F> {
    fn section(&self) -> String {
        "point:merge-panics".into()
    }
    fn types(&self) -> String {
        "Point<u8,()>".into()
    }
    fn groups(&self, prop: &str, _p: P) -> Vec<Group> {
        if prop == "C01" { vec![Group { name: "point", dims: vec![4, 4], table_lookup: false }] } else { vec![] }
    }
    fn run(&self, prop: &str, p: P, shard: usize, nshards: usize) -> Stats {
        let meta = Meta { section: self.section(), types: self.types(), prop: prop.into(), p };
        drive(&meta, &self.groups(prop, p), shard, nshards, &|_g, idx| self.eval(idx), &|_g, idx| {
            idx.iter().map(|i| POINT_VALUES[*i].to_string()).collect()
        })
    }
    fn case(&self, _prop: &str, _p: P, _group: &str, idx: &[usize]) -> (Vec<String>, Vec<Fail>) {
        (idx.iter().map(|i| POINT_VALUES[*i].to_string()).collect(), self.eval(idx).fails)
    }
}
impl<F: Fn(u8, u8) -> bool + Send + Sync> PointPanics<F> {
    fn eval(&self, idx: &[usize]) -> Obs {
        let mut o = Obs::default();
        let (a, b) = (POINT_VALUES[idx[0]], POINT_VALUES[idx[1]]);
        let r = catch(|| (self.merge)(a, b));
        match (a == b, &r) {
            (true, Ok(false)) => {}
            (true, Ok(true)) => o.fail("point_merge", "merge of equal points returned true".into()),
            (true, Err(m)) => o.fail("point_merge", format!("merge of equal points panicked: {m}")),
            (false, Err(_)) => {}
            (false, Ok(f)) => o.fail("point_merge", format!("merge of unequal points did not panic (returned {f})")),
        }
        o.outcome = Some(r.is_ok() as u64);
        o.nontrivial = Some(mix(a as u64, b as u64 + 1000));
        o
    }
}
