//! The type table: one line per concrete lattice type / pair of representations.
//! Adding a representation is one line. The macros fill in function pointers to the REAL trait
//! methods of `/repo/lattices`; trait bounds are checked here by rustc.
use std::cell::Cell;
use std::collections::{BTreeMap, BTreeSet, HashMap, HashSet};

use lattices::collections::{
    ArrayMap, ArraySet, EmptyMap, EmptySet, OptionMap, OptionSet, SingletonMap, SingletonSet, VecMap,
};
use lattices::map_union::MapUnion;
use lattices::map_union_with_tombstones::MapUnionWithTombstones;
use lattices::set_union::SetUnion;
use lattices::set_union_with_tombstones::SetUnionWithTombstones;
use lattices::tombstone::{FstTombstoneSet, RoaringTombstoneSet};
use lattices::union_find::UnionFind;
use lattices::{Atomize, Conflict, DomPair, IsBot, IsTop, Max, Merge, Min, Pair, Point, VecUnion, WithBot, WithTop};

use crate::checks::{Atoms, Cross, Job, Ops, Own, PointPanics, XOps};
use crate::val::{D2, D3, D3T, DG, P, Prov0, Prov1, Prov255};

pub struct Entry {
    pub job: Box<dyn Job>,
    pub q: P,
    pub t: P,
}

const fn p(k: u8, e: u8, l: u8) -> P {
    P { k, e, l }
}

// ---- function-pointer bundles -------------------------------------------------------------

macro_rules! f_merge {
    ($T:ty, $U:ty) => {
        Some((|a: &mut $T, b: $U| Merge::merge(a, b)) as fn(&mut $T, $U) -> bool)
    };
}
macro_rules! f_rel {
    ($T:ty, $U:ty) => {
        Some([
            (|a: &$T, b: &$U| a < b) as fn(&$T, &$U) -> bool,
            (|a: &$T, b: &$U| a <= b) as fn(&$T, &$U) -> bool,
            (|a: &$T, b: &$U| a > b) as fn(&$T, &$U) -> bool,
            (|a: &$T, b: &$U| a >= b) as fn(&$T, &$U) -> bool,
        ])
    };
}
macro_rules! f_eq {
    ($T:ty, $U:ty) => {
        Some((|a: &$T, b: &$U| a == b) as fn(&$T, &$U) -> bool)
    };
}
macro_rules! f_pc {
    ($T:ty, $U:ty) => {
        Some((|a: &$T, b: &$U| PartialOrd::partial_cmp(a, b)) as fn(&$T, &$U) -> Option<std::cmp::Ordering>)
    };
}

macro_rules! ops {
    // comparisons only (representations that cannot be merge receivers)
    (ord $T:ty) => {
        Ops::<$T> {
            merge: None,
            eq: f_eq!($T, $T),
            ne: Some((|a: &$T, b: &$T| a != b) as fn(&$T, &$T) -> bool),
            pc: f_pc!($T, $T),
            rel: f_rel!($T, $T),
            is_bot: Some((|a: &$T| IsBot::is_bot(a)) as fn(&$T) -> bool),
            is_top: Some((|a: &$T| IsTop::is_top(a)) as fn(&$T) -> bool),
            dflt: None,
        }
    };
    // ==, partial_cmp only (MapUnion<VecMap>: VecMap lacks cc_traits::Iter, hence no IsBot)
    (cmp $T:ty) => {
        Ops::<$T> {
            merge: None,
            eq: f_eq!($T, $T),
            ne: Some((|a: &$T, b: &$T| a != b) as fn(&$T, &$T) -> bool),
            pc: f_pc!($T, $T),
            rel: f_rel!($T, $T),
            is_bot: None,
            is_top: None,
            dflt: None,
        }
    };
    // full lattice type without Default
    (lat $T:ty) => {
        Ops::<$T> { merge: f_merge!($T, $T), ..ops!(ord $T) }
    };
    // full lattice type with Default
    (latd $T:ty) => {
        Ops::<$T> { dflt: Some((|| <$T as Default>::default()) as fn() -> $T), ..ops!(lat $T) }
    };
    // Merge<Self> only (no PartialEq / PartialOrd): judged under alpha only
    (merge $T:ty) => {
        Ops::<$T> { merge: f_merge!($T, $T), ..Ops::<$T>::NONE }
    };
    // pure delta representation
    (none $T:ty) => {
        Ops::<$T>::NONE
    };
}

macro_rules! own {
    ($v:ident, $kind:ident, $T:ty, $q:expr, $t:expr) => {
        $v.push(Entry { job: Box::new(Own::<$T> { ops: ops!($kind $T) }), q: $q, t: $t });
    };
}

/// `T` receives deltas of representation `U` (C01 / C02); with `ord`, `T` and `U` are also compared
/// in both directions (C03); with `sym`, `U` also receives `T`.
macro_rules! cross {
    (@flag $x:ident, delta, $T:ty, $U:ty) => { $x.merge_tu = f_merge!($T, $U); };
    (@flag $x:ident, sym, $T:ty, $U:ty) => { $x.merge_ut = f_merge!($U, $T); };
    (@flag $x:ident, ord, $T:ty, $U:ty) => {
        $x.eq_tu = f_eq!($T, $U);
        $x.eq_ut = f_eq!($U, $T);
        $x.pc_tu = f_pc!($T, $U);
        $x.pc_ut = f_pc!($U, $T);
        $x.rel_tu = f_rel!($T, $U);
    };
    ($v:ident, $kt:ident $T:ty, $ku:ident $U:ty, [$($flag:ident),*], $q:expr, $t:expr) => {{
        #[allow(unused_mut)]
        let mut x = XOps::<$T, $U>::NONE;
        $( cross!(@flag x, $flag, $T, $U); )*
        $v.push(Entry { job: Box::new(Cross::<$T, $U> { t: ops!($kt $T), u: ops!($ku $U), x }), q: $q, t: $t });
    }};
}

macro_rules! atoms {
    ($v:ident, $T:ty, $q:expr, $t:expr) => {
        $v.push(Entry {
            job: Box::new(Atoms::<$T, <$T as Atomize>::Atom> {
                atomize: |x: $T| Atomize::atomize(x).collect(),
                merge_atom: |a: &mut $T, b: <$T as Atomize>::Atom| Merge::merge(a, b),
                atom_is_bot: |a: &<$T as Atomize>::Atom| IsBot::is_bot(a),
                is_bot: |a: &$T| IsBot::is_bot(a),
                dflt: || <$T as Default>::default(),
                eq: |a: &$T, b: &$T| a == b,
            }),
            q: $q,
            t: $t,
        });
    };
}

// ---- type aliases ---------------------------------------------------------------------------

type HS = SetUnion<HashSet<u8>>;
type BS = SetUnion<BTreeSet<u8>>;
type VS = SetUnion<Vec<u8>>;
type AS0 = SetUnion<ArraySet<u8, 0>>;
type AS1 = SetUnion<ArraySet<u8, 1>>;
type AS2 = SetUnion<ArraySet<u8, 2>>;
type OS = SetUnion<OptionSet<u8>>;
type SS = SetUnion<SingletonSet<u8>>;

type MxU = Max<u8>;
type MnU = Min<u8>;
type MxB = Max<bool>;
type MnB = Min<bool>;
type WbMx = WithBot<Max<u8>>;

type HM<V> = MapUnion<HashMap<u8, V>>;
type BM<V> = MapUnion<BTreeMap<u8, V>>;
type VM<V> = MapUnion<VecMap<u8, V>>;
type AM1<V> = MapUnion<ArrayMap<u8, V, 1>>;
type AM2<V> = MapUnion<ArrayMap<u8, V, 2>>;
type OM<V> = MapUnion<OptionMap<u8, V>>;
type SM<V> = MapUnion<SingletonMap<u8, V>>;

type UfH = UnionFind<HashMap<u8, Cell<u8>>>;
type UfB = UnionFind<BTreeMap<u8, Cell<u8>>>;
type UfV = UnionFind<VecMap<u8, Cell<u8>>>;
type UfS = UnionFind<SingletonMap<u8, Cell<u8>>>;
type UfO = UnionFind<OptionMap<u8, Cell<u8>>>;
type UfA = UnionFind<ArrayMap<u8, Cell<u8>, 2>>;

type TsH = SetUnionWithTombstones<HashSet<u8>, HashSet<u8>>;
type TsB = SetUnionWithTombstones<BTreeSet<u8>, BTreeSet<u8>>;
type TsV = SetUnionWithTombstones<Vec<u8>, Vec<u8>>;
type TsS = SetUnionWithTombstones<SingletonSet<u8>, SingletonSet<u8>>;
type TsT = SetUnionWithTombstones<EmptySet<u8>, SingletonSet<u8>>;
type TsO = SetUnionWithTombstones<OptionSet<u8>, OptionSet<u8>>;
type TsA = SetUnionWithTombstones<ArraySet<u8, 1>, ArraySet<u8, 1>>;
type TsR = SetUnionWithTombstones<HashSet<u64>, RoaringTombstoneSet>;
type TsVR = SetUnionWithTombstones<Vec<u64>, Vec<u64>>;
type TsF = SetUnionWithTombstones<HashSet<String>, FstTombstoneSet<String>>;

type TmH<V> = MapUnionWithTombstones<HashMap<u8, V>, HashSet<u8>>;
type TmS<V> = MapUnionWithTombstones<SingletonMap<u8, V>, EmptySet<u8>>;
type TmT<V> = MapUnionWithTombstones<EmptyMap<u8, V>, SingletonSet<u8>>;
type TmR<V> = MapUnionWithTombstones<HashMap<u64, V>, RoaringTombstoneSet>;
type TmVR<V> = MapUnionWithTombstones<HashMap<u64, V>, Vec<u64>>;
type TmF<V> = MapUnionWithTombstones<HashMap<String, V>, FstTombstoneSet<String>>;

pub fn table() -> Vec<Entry> {
    let mut v: Vec<Entry> = vec![];
    // domains: p(keys, set elements, vec len / unions)
    let q = p(2, 2, 2);
    let t3 = p(3, 3, 3);

    // ---- scalars ---------------------------------------------------------------------------
    own!(v, lat, (), q, q);
    own!(v, latd, MxU, q, q);
    own!(v, latd, MnU, q, q);
    own!(v, latd, MxB, q, q);
    own!(v, latd, MnB, q, q);
    own!(v, lat, Max<()>, q, q);
    own!(v, lat, Min<()>, q, q);
    own!(v, lat, Conflict<u8>, q, p(2, 4, 2));
    own!(v, latd, Point<u8, Prov0>, q, q);
    own!(v, lat, Point<u8, Prov1>, q, q);
    own!(v, lat, Point<u8, Prov255>, q, q);
    v.push(Entry {
        job: Box::new(PointPanics {
            merge: |a: u8, b: u8| {
                let mut x = Point::<u8, ()>::new(a);
                Merge::merge(&mut x, Point::<u8, ()>::new(b))
            },
        }),
        q,
        t: q,
    });

    // ---- SetUnion --------------------------------------------------------------------------
    own!(v, latd, HS, q, p(2, 4, 2));
    own!(v, latd, BS, q, p(2, 4, 2));
    own!(v, ord, AS0, q, t3);
    own!(v, ord, AS1, q, t3);
    own!(v, ord, AS2, q, t3);
    own!(v, ord, OS, q, t3);
    own!(v, ord, SS, q, t3);
    cross!(v, latd HS, latd BS, [delta, sym, ord], q, p(2, 4, 2));
    cross!(v, latd HS, none VS, [delta], q, t3);
    cross!(v, latd HS, ord AS0, [delta, ord], q, t3);
    cross!(v, latd HS, ord AS1, [delta, ord], q, t3);
    cross!(v, latd HS, ord AS2, [delta, ord], q, t3);
    cross!(v, latd HS, ord OS, [delta, ord], q, t3);
    cross!(v, latd HS, ord SS, [delta, ord], q, t3);
    cross!(v, latd BS, none VS, [delta], q, t3);
    cross!(v, latd BS, ord SS, [delta, ord], q, t3);
    cross!(v, ord SS, ord AS2, [ord], q, t3);
    cross!(v, ord OS, ord SS, [ord], q, t3);
    cross!(v, ord OS, ord AS1, [ord], q, t3);

    // ---- MapUnion (universes include bottom-valued entries) -----------------------------------
    own!(v, latd, HM<HS>, q, t3);
    own!(v, latd, HM<BS>, q, p(2, 3, 2));
    own!(v, latd, HM<MxU>, q, t3);
    own!(v, latd, HM<WbMx>, q, t3);
    own!(v, latd, BM<HS>, q, p(3, 2, 2));
    own!(v, latd, BM<MxU>, q, t3);
    own!(v, latd, BM<WbMx>, q, t3);
    own!(v, cmp, VM<HS>, q, p(2, 3, 2));
    own!(v, cmp, VM<MxU>, q, p(3, 2, 2));
    own!(v, ord, AM2<WbMx>, q, t3);
    own!(v, ord, OM<HS>, q, t3);
    own!(v, ord, SM<HS>, q, t3);
    let m = p(2, 3, 2);
    cross!(v, latd HM<HS>, latd BM<HS>, [delta, sym, ord], q, m);
    cross!(v, latd HM<HS>, latd HM<BS>, [delta, sym, ord], q, m);
    cross!(v, latd HM<HS>, cmp VM<HS>, [delta, ord], q, m);
    cross!(v, latd HM<HS>, ord AM1<HS>, [delta, ord], q, m);
    cross!(v, latd HM<HS>, ord AM2<HS>, [delta, ord], q, m);
    cross!(v, latd HM<HS>, ord OM<HS>, [delta, ord], q, m);
    cross!(v, latd HM<HS>, ord SM<HS>, [delta, ord], q, m);
    cross!(v, latd HM<HS>, ord SM<SS>, [delta, ord], q, m);
    cross!(v, latd HM<HS>, cmp VM<OS>, [delta, ord], q, m);
    cross!(v, latd BM<HS>, ord SM<SS>, [delta, ord], q, m);
    cross!(v, latd BM<HS>, cmp VM<BS>, [delta, ord], q, m);
    cross!(v, latd HM<MxU>, latd BM<MxU>, [delta, sym, ord], q, t3);
    cross!(v, latd HM<MxU>, cmp VM<MxU>, [delta, ord], q, p(3, 2, 2));
    cross!(v, latd HM<MxU>, ord SM<MxU>, [delta, ord], q, t3);
    cross!(v, latd HM<WbMx>, latd BM<WbMx>, [delta, sym, ord], q, t3);
    cross!(v, latd HM<WbMx>, cmp VM<WbMx>, [delta, ord], q, q);
    cross!(v, latd HM<WbMx>, ord AM2<WbMx>, [delta, ord], q, t3);
    cross!(v, latd HM<WbMx>, ord SM<WbMx>, [delta, ord], q, t3);
    cross!(v, latd BM<WbMx>, ord OM<WbMx>, [delta, ord], q, t3);
    cross!(v, cmp VM<HS>, ord SM<SS>, [ord], q, m);
    cross!(v, ord OM<HS>, ord AM1<HS>, [ord], q, m);

    // ---- WithBot / WithTop -------------------------------------------------------------------
    own!(v, latd, WithBot<MxU>, q, q);
    own!(v, latd, WithBot<MxB>, q, q);
    own!(v, latd, WithBot<MnU>, q, q);
    own!(v, latd, WithBot<HS>, q, t3);
    own!(v, latd, WithBot<()>, q, q);
    own!(v, latd, WithBot<Conflict<u8>>, q, q);
    own!(v, latd, WithTop<MxU>, q, q);
    own!(v, latd, WithTop<MxB>, q, q);
    own!(v, latd, WithTop<MnB>, q, q);
    own!(v, latd, WithTop<HS>, q, t3);
    own!(v, lat, WithTop<()>, q, q);
    own!(v, latd, WithBot<WithTop<MxU>>, q, q);
    own!(v, latd, WithBot<WithTop<HS>>, q, t3);
    own!(v, latd, WithTop<WithBot<MxU>>, q, q);
    own!(v, latd, WithTop<WithBot<HS>>, q, t3);
    own!(v, latd, WithBot<WithBot<MxB>>, q, q);
    cross!(v, latd WithBot<HS>, latd WithBot<BS>, [delta, sym, ord], q, t3);
    cross!(v, latd WithBot<HS>, ord WithBot<SS>, [delta, ord], q, t3);
    cross!(v, latd WithBot<HS>, ord WithBot<OS>, [delta, ord], q, t3);
    cross!(v, latd WithTop<HS>, ord WithTop<SS>, [delta, ord], q, t3);
    cross!(v, latd WithTop<HS>, latd WithTop<BS>, [delta, sym, ord], q, t3);
    cross!(v, latd WithBot<WithTop<HS>>, ord WithBot<WithTop<OS>>, [delta, ord], q, t3);
    cross!(v, latd WithTop<WithBot<HS>>, ord WithTop<WithBot<AS2>>, [delta, ord], q, t3);

    // ---- Pair / VecUnion / DomPair (total-order keys only) -----------------------------------
    own!(v, latd, Pair<MxU, HS>, q, t3);
    own!(v, latd, Pair<MnB, WbMx>, q, q);
    own!(v, latd, Pair<HS, BS>, q, t3);
    own!(v, latd, Pair<MxB, MnB>, q, q);
    cross!(v, latd Pair<MxU, HS>, ord Pair<MxU, SS>, [delta, ord], q, t3);
    cross!(v, latd Pair<HS, BS>, latd Pair<BS, HS>, [delta, sym, ord], q, t3);
    own!(v, latd, VecUnion<MxU>, q, t3);
    own!(v, latd, VecUnion<HS>, q, p(2, 2, 3));
    own!(v, latd, VecUnion<WithBot<MxB>>, q, t3);
    cross!(v, latd VecUnion<HS>, ord VecUnion<SS>, [delta, ord], q, p(2, 2, 3));
    cross!(v, latd VecUnion<HS>, latd VecUnion<BS>, [delta, sym, ord], q, p(2, 2, 3));
    own!(v, latd, DomPair<MxU, HS>, q, t3);
    own!(v, latd, DomPair<MnU, HS>, q, t3);
    own!(v, latd, DomPair<MxU, WbMx>, q, q);
    own!(v, latd, DomPair<MxB, MnU>, q, q);
    own!(v, latd, DomPair<MnB, HM<MxU>>, q, q);
    cross!(v, latd DomPair<MxU, HS>, ord DomPair<MxU, SS>, [delta, ord], q, t3);
    cross!(v, latd DomPair<MnU, HS>, latd DomPair<MnU, BS>, [delta, sym, ord], q, t3);

    // ---- UnionFind (receivers: forests reachable by unions; deltas: any edge list) -------------
    own!(v, latd, UfH, p(3, 0, 2), p(3, 0, 3));
    own!(v, latd, UfB, p(3, 0, 2), p(3, 0, 3));
    cross!(v, latd UfH, latd UfB, [delta, sym, ord], p(3, 0, 2), p(3, 0, 3));
    cross!(v, latd UfH, none UfV, [delta], p(3, 0, 2), p(3, 0, 3));
    cross!(v, latd UfH, none UfS, [delta], p(3, 0, 2), p(4, 0, 3));
    cross!(v, latd UfH, none UfO, [delta], p(3, 0, 2), p(4, 0, 3));
    cross!(v, latd UfH, none UfA, [delta], p(3, 0, 2), p(3, 0, 3));
    cross!(v, latd UfB, none UfS, [delta], p(3, 0, 2), p(4, 0, 3));

    // ---- tombstones (well-formed replicas) ------------------------------------------------------
    own!(v, latd, TsH, q, p(2, 4, 2));
    own!(v, ord, TsB, q, t3);
    own!(v, merge, TsR, q, t3);
    own!(v, merge, TsF, q, t3);
    // unsorted tombstone deltas into the roaring backing (every arrival order of the tombstones)
    cross!(v, merge TsR, none TsVR, [delta], q, t3);
    cross!(v, latd TsH, ord TsB, [delta, ord], q, t3);
    cross!(v, latd TsH, none TsV, [delta], q, q);
    cross!(v, latd TsH, ord TsS, [delta, ord], q, t3);
    cross!(v, latd TsH, ord TsT, [delta, ord], q, t3);
    cross!(v, latd TsH, ord TsO, [delta, ord], q, t3);
    cross!(v, latd TsH, ord TsA, [delta, ord], q, t3);
    own!(v, latd, TmH<HS>, q, p(3, 2, 2));
    own!(v, latd, TmH<MxU>, q, t3);
    own!(v, latd, TmH<WbMx>, q, q);
    own!(v, merge, TmR<MxU>, q, t3);
    own!(v, merge, TmF<HS>, q, q);
    cross!(v, merge TmR<MxU>, none TmVR<MxU>, [delta], q, t3);
    cross!(v, latd TmH<HS>, ord TmS<HS>, [delta, ord], q, p(3, 2, 2));
    cross!(v, latd TmH<HS>, ord TmS<SS>, [delta, ord], q, p(3, 2, 2));
    cross!(v, latd TmH<HS>, ord TmT<HS>, [delta, ord], q, p(3, 2, 2));
    cross!(v, latd TmH<MxU>, ord TmS<MxU>, [delta, ord], q, t3);
    cross!(v, latd TmH<MxU>, ord TmT<MxU>, [delta, ord], q, t3);

    // ---- #[derive(Lattice)] ----------------------------------------------------------------------
    own!(v, latd, D2, q, t3);
    own!(v, latd, D3, q, p(2, 3, 2));
    own!(v, latd, D3T, q, q);
    own!(v, latd, DG<MxU, HS>, q, t3);
    own!(v, latd, DG<HM<MxU>, WithTop<MxB>>, q, t3);
    cross!(v, latd DG<MxU, HS>, ord DG<MxU, SS>, [delta, ord], q, t3);
    cross!(v, latd DG<HS, BS>, latd DG<BS, HS>, [delta, sym, ord], q, t3);

    // ---- two-level nestings ----------------------------------------------------------------------
    own!(v, latd, HM<HM<HS>>, p(2, 1, 2), p(2, 1, 2));
    own!(v, latd, WithTop<HM<HS>>, q, p(3, 2, 2));
    own!(v, latd, Pair<VecUnion<MxU>, WithBot<HS>>, q, p(2, 1, 3));
    own!(v, latd, HM<WithBot<HS>>, q, p(3, 2, 2));
    own!(v, latd, HM<Pair<MxB, HS>>, p(2, 1, 2), q);
    own!(v, latd, VecUnion<HM<MxB>>, p(2, 1, 2), p(2, 1, 2));
    cross!(v, latd HM<HM<HS>>, ord SM<SM<SS>>, [delta, ord], p(2, 1, 2), q);
    cross!(v, latd WithTop<HM<HS>>, ord WithTop<SM<SS>>, [delta, ord], q, p(3, 2, 2));
    cross!(v, latd Pair<VecUnion<MxU>, WithBot<HS>>, ord Pair<VecUnion<MxU>, WithBot<SS>>, [delta, ord], q, q);

    // ---- C06: every type with Atomize ---------------------------------------------------------------
    atoms!(v, (), q, q);
    atoms!(v, HS, q, p(2, 4, 2));
    atoms!(v, BS, q, p(2, 4, 2));
    atoms!(v, HM<HS>, q, t3);
    atoms!(v, BM<HS>, q, t3);
    atoms!(v, HM<BS>, q, t3);
    atoms!(v, HM<WithBot<HS>>, q, t3);
    atoms!(v, HM<WithTop<HS>>, q, t3);
    atoms!(v, HM<()>, q, t3);
    atoms!(v, HM<HM<HS>>, p(2, 1, 2), q);
    atoms!(v, WithBot<HS>, q, t3);
    atoms!(v, WithBot<()>, q, q);
    atoms!(v, WithTop<HS>, q, t3);
    atoms!(v, WithTop<()>, q, q);
    atoms!(v, WithBot<WithTop<HS>>, q, t3);
    atoms!(v, WithTop<WithBot<HS>>, q, t3);
    atoms!(v, WithTop<HM<HS>>, q, t3);
    atoms!(v, WithBot<HM<BS>>, q, t3);
    atoms!(v, UfH, p(3, 0, 2), p(5, 0, 4));
    // 5 items / 4 unions: parent chains of depth 3 with a sibling below (deep re-parenting on re-merge)
    atoms!(v, UfB, p(5, 0, 4), p(5, 0, 5));
    atoms!(v, HM<UfB>, p(2, 0, 1), p(2, 0, 2));
    v
}
