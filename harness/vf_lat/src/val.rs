//! `Val`: for every concrete lattice type of the table — its name, its *complete* universe over a
//! small domain, the abstraction function `alpha` into the model, and a canonical rendering.
//!
//! `alpha` reads only the revealed representation (never `==`, `partial_cmp`, `is_bot`, `merge` of
//! the type under test), so a wrong `PartialEq` cannot hide a wrong `merge`.
use std::cell::Cell;
use std::collections::{BTreeMap, BTreeSet, HashMap, HashSet};
use std::hash::Hash;

use lattices::collections::{
    ArrayMap, ArraySet, EmptyMap, EmptySet, OptionMap, OptionSet, SingletonMap, SingletonSet, VecMap,
};
use lattices::map_union::MapUnion;
use lattices::map_union_with_tombstones::MapUnionWithTombstones;
use lattices::set_union::SetUnion;
use lattices::set_union_with_tombstones::SetUnionWithTombstones;
use lattices::tombstone::{FstTombstoneSet, RoaringTombstoneSet};
use lattices::union_find::UnionFind;
use lattices::{Conflict, DomPair, Lattice, Max, Min, Pair, Point, VecUnion, WithBot, WithTop};

use crate::model::{M, is_bot, mk_map, partition};

/// Domain parameters of a universe.
/// `k`: number of map keys / union-find items, `e`: number of set elements, `l`: max vec length /
/// max number of unions.
#[derive(Clone, Copy, Debug, PartialEq, Eq)]
pub struct P {
    pub k: u8,
    pub e: u8,
    pub l: u8,
}

pub trait Val: Clone + 'static {
    /// True iff the enumerated universe contains the type's true greatest element, so that
    /// "greatest of the universe" implies "top of the type". When false, only the sound direction
    /// `is_top(x) => x is greatest in the universe` is judged.
    const TOP_IN_U: bool;
    /// True iff "least value of the enumerated universe" implies "bottom of the type": the
    /// universe contains the type's bottom. False for fixed-size representations that cannot
    /// express the empty collection (ArraySet<_,N>=1>, SingletonSet, ...) and for `Conflict` (no
    /// bottom at all). When false only the sound direction `is_bot(x) => x is least` is judged.
    const BOT_IN_U: bool = true;
    fn tname() -> String;
    fn uni(p: P) -> Vec<Self>;
    fn alpha(&self) -> M;
    fn show(&self) -> String;
}

// ---------------------------------------------------------------------------------------------
// small enumeration helpers (deterministic order)

pub fn subsets(n: u8) -> Vec<Vec<u8>> {
    (0..(1u32 << n)).map(|m| (0..n).filter(|i| m >> i & 1 == 1).collect()).collect()
}

/// Ordered arrangements of `len` distinct items of 0..n.
pub fn arrangements(n: u8, len: usize) -> Vec<Vec<u8>> {
    let mut out = vec![vec![]];
    for _ in 0..len {
        let mut next = vec![];
        for s in &out {
            for x in 0..n {
                if !s.contains(&x) {
                    let mut t: Vec<u8> = s.clone();
                    t.push(x);
                    next.push(t);
                }
            }
        }
        out = next;
    }
    out
}

pub fn arrangements_upto(n: u8) -> Vec<Vec<u8>> {
    (0..=n as usize).flat_map(|l| arrangements(n, l)).collect()
}

pub fn seqs_upto<T: Clone>(alpha: &[T], max_len: usize) -> Vec<Vec<T>> {
    vf_explore::combi::sequences_upto(alpha, max_len)
}

/// All ways to give each of `keys` a value from `vals`.
pub fn assignments<T: Clone>(keys: &[u8], vals: &[T]) -> Vec<Vec<(u8, T)>> {
    let mut out: Vec<Vec<(u8, T)>> = vec![vec![]];
    for k in keys {
        let mut next = Vec::with_capacity(out.len() * vals.len());
        for s in &out {
            for v in vals {
                let mut t = s.clone();
                t.push((*k, v.clone()));
                next.push(t);
            }
        }
        out = next;
    }
    out
}

fn join_str<I: IntoIterator<Item = String>>(it: I, sep: &str) -> String {
    it.into_iter().collect::<Vec<_>>().join(sep)
}

// ---------------------------------------------------------------------------------------------
// keys

pub trait Key: Clone + Eq + Hash + Ord + 'static {
    fn from_u8(x: u8) -> Self;
    fn to_u8(&self) -> u8;
    fn kname() -> &'static str;
}
impl Key for u8 {
    fn from_u8(x: u8) -> Self {
        x
    }
    fn to_u8(&self) -> u8 {
        *self
    }
    fn kname() -> &'static str {
        "u8"
    }
}
impl Key for u64 {
    fn from_u8(x: u8) -> Self {
        // spread over two roaring containers
        if x % 2 == 0 { x as u64 } else { (1u64 << 33) + x as u64 }
    }
    fn to_u8(&self) -> u8 {
        (*self & 0xff) as u8
    }
    fn kname() -> &'static str {
        "u64"
    }
}
impl Key for String {
    fn from_u8(x: u8) -> Self {
        // fixed bijection 0,1,2,.. <-> "a","ab","abc" / shared prefixes exercise the FST
        ["a", "ab", "b", "ba", "c"][x as usize].to_string()
    }
    fn to_u8(&self) -> u8 {
        ["a", "ab", "b", "ba", "c"].iter().position(|s| s == self).expect("unknown string key") as u8
    }
    fn kname() -> &'static str {
        "String"
    }
}

// ---------------------------------------------------------------------------------------------
// set backends

pub trait SetB: Clone + 'static {
    /// the representation can express the empty set
    const HAS_EMPTY: bool = true;
    fn bname() -> String;
    fn all(p: P) -> Vec<Self>;
    /// Elements in representation order (duplicates preserved).
    fn elems(&self) -> Vec<u8>;
    /// Whether the representation order is significant for `show`.
    fn brackets() -> (&'static str, &'static str);
    fn sorted_show() -> bool;
}

fn show_set<S: SetB>(s: &S) -> String {
    let mut e = s.elems();
    if S::sorted_show() {
        e.sort();
    }
    let (l, r) = S::brackets();
    format!("{l}{}{r}", join_str(e.iter().map(|x| x.to_string()), ","))
}

impl<K: Key> SetB for HashSet<K> {
    fn bname() -> String {
        format!("HashSet<{}>", K::kname())
    }
    fn all(p: P) -> Vec<Self> {
        subsets(p.e).into_iter().map(|s| s.into_iter().map(K::from_u8).collect()).collect()
    }
    fn elems(&self) -> Vec<u8> {
        self.iter().map(|k| k.to_u8()).collect()
    }
    fn brackets() -> (&'static str, &'static str) {
        ("{", "}")
    }
    fn sorted_show() -> bool {
        true
    }
}
impl<K: Key> SetB for BTreeSet<K> {
    fn bname() -> String {
        format!("BTreeSet<{}>", K::kname())
    }
    fn all(p: P) -> Vec<Self> {
        subsets(p.e).into_iter().map(|s| s.into_iter().map(K::from_u8).collect()).collect()
    }
    fn elems(&self) -> Vec<u8> {
        self.iter().map(|k| k.to_u8()).collect()
    }
    fn brackets() -> (&'static str, &'static str) {
        ("{", "}")
    }
    fn sorted_show() -> bool {
        true
    }
}
impl<K: Key> SetB for Vec<K> {
    fn bname() -> String {
        format!("Vec<{}>", K::kname())
    }
    fn all(p: P) -> Vec<Self> {
        let d: Vec<u8> = (0..p.e).collect();
        seqs_upto(&d, p.e as usize).into_iter().map(|s| s.into_iter().map(K::from_u8).collect()).collect()
    }
    fn elems(&self) -> Vec<u8> {
        self.iter().map(|k| k.to_u8()).collect()
    }
    fn brackets() -> (&'static str, &'static str) {
        ("[", "]")
    }
    fn sorted_show() -> bool {
        false
    }
}
impl<const N: usize> SetB for ArraySet<u8, N> {
    const HAS_EMPTY: bool = N == 0;
    fn bname() -> String {
        format!("ArraySet<u8,{N}>")
    }
    // "fixed-size set (modulo duplicate items)": only duplicate-free arrays are well-formed sets.
    fn all(p: P) -> Vec<Self> {
        arrangements(p.e, N).into_iter().map(|v| ArraySet(<[u8; N]>::try_from(v).unwrap())).collect()
    }
    fn elems(&self) -> Vec<u8> {
        self.0.to_vec()
    }
    fn brackets() -> (&'static str, &'static str) {
        ("[", "]")
    }
    fn sorted_show() -> bool {
        false
    }
}
impl SetB for OptionSet<u8> {
    fn bname() -> String {
        "OptionSet<u8>".into()
    }
    fn all(p: P) -> Vec<Self> {
        std::iter::once(OptionSet(None)).chain((0..p.e).map(|x| OptionSet(Some(x)))).collect()
    }
    fn elems(&self) -> Vec<u8> {
        self.0.into_iter().collect()
    }
    fn brackets() -> (&'static str, &'static str) {
        ("Opt(", ")")
    }
    fn sorted_show() -> bool {
        false
    }
}
impl SetB for SingletonSet<u8> {
    const HAS_EMPTY: bool = false;
    fn bname() -> String {
        "SingletonSet<u8>".into()
    }
    fn all(p: P) -> Vec<Self> {
        (0..p.e).map(SingletonSet).collect()
    }
    fn elems(&self) -> Vec<u8> {
        vec![self.0]
    }
    fn brackets() -> (&'static str, &'static str) {
        ("One(", ")")
    }
    fn sorted_show() -> bool {
        false
    }
}
impl SetB for EmptySet<u8> {
    fn bname() -> String {
        "EmptySet<u8>".into()
    }
    fn all(_p: P) -> Vec<Self> {
        vec![EmptySet::default()]
    }
    fn elems(&self) -> Vec<u8> {
        vec![]
    }
    fn brackets() -> (&'static str, &'static str) {
        ("Empty(", ")")
    }
    fn sorted_show() -> bool {
        false
    }
}
impl SetB for RoaringTombstoneSet {
    fn bname() -> String {
        "RoaringTombstoneSet".into()
    }
    fn all(p: P) -> Vec<Self> {
        subsets(p.e).into_iter().map(|s| s.into_iter().map(u64::from_u8).collect()).collect()
    }
    fn elems(&self) -> Vec<u8> {
        self.clone().into_iter().map(|k| k.to_u8()).collect()
    }
    fn brackets() -> (&'static str, &'static str) {
        ("{", "}")
    }
    fn sorted_show() -> bool {
        true
    }
}
impl SetB for FstTombstoneSet<String> {
    fn bname() -> String {
        "FstTombstoneSet<String>".into()
    }
    fn all(p: P) -> Vec<Self> {
        subsets(p.e).into_iter().map(|s| s.into_iter().map(String::from_u8).collect()).collect()
    }
    fn elems(&self) -> Vec<u8> {
        self.clone().into_iter().map(|k| k.to_u8()).collect()
    }
    fn brackets() -> (&'static str, &'static str) {
        ("{", "}")
    }
    fn sorted_show() -> bool {
        true
    }
}

impl<S: SetB> Val for SetUnion<S> {
    const TOP_IN_U: bool = false;
    const BOT_IN_U: bool = S::HAS_EMPTY;
    fn tname() -> String {
        format!("SetUnion<{}>", S::bname())
    }
    fn uni(p: P) -> Vec<Self> {
        S::all(p).into_iter().map(SetUnion::new).collect()
    }
    fn alpha(&self) -> M {
        M::Set(self.as_reveal_ref().elems().into_iter().collect())
    }
    fn show(&self) -> String {
        show_set(self.as_reveal_ref())
    }
}

// ---------------------------------------------------------------------------------------------
// map backends

pub trait MapB: Clone + 'static {
    type V: Val;
    /// the representation can express the empty map
    const HAS_EMPTY: bool = true;
    fn bname() -> String;
    fn all(p: P) -> Vec<Self>;
    /// Entries in representation order.
    fn entries(&self) -> Vec<(u8, &Self::V)>;
    fn brackets() -> (&'static str, &'static str);
    fn sorted_show() -> bool;
}

fn show_map<B: MapB>(b: &B) -> String {
    let mut e = b.entries();
    if B::sorted_show() {
        e.sort_by_key(|(k, _)| *k);
    }
    let (l, r) = B::brackets();
    format!("{l}{}{r}", join_str(e.iter().map(|(k, v)| format!("{k}:{}", v.show())), ","))
}

fn alpha_map<B: MapB>(b: &B) -> std::collections::BTreeMap<u8, M> {
    mk_map(b.entries().into_iter().map(|(k, v)| (k, v.alpha())))
}

/// Every partial assignment of 0..k to values (including bottom-valued entries).
fn partial_maps<V: Val>(p: P) -> Vec<Vec<(u8, V)>> {
    let vals = V::uni(p);
    let mut out: Vec<Vec<(u8, V)>> = vec![vec![]];
    for k in 0..p.k {
        let mut next = vec![];
        for s in &out {
            next.push(s.clone());
            for v in &vals {
                let mut t = s.clone();
                t.push((k, v.clone()));
                next.push(t);
            }
        }
        out = next;
    }
    out
}

impl<K: Key, V: Val> MapB for HashMap<K, V> {
    type V = V;
    fn bname() -> String {
        format!("HashMap<{},{}>", K::kname(), V::tname())
    }
    fn all(p: P) -> Vec<Self> {
        partial_maps::<V>(p).into_iter().map(|m| m.into_iter().map(|(k, v)| (K::from_u8(k), v)).collect()).collect()
    }
    fn entries(&self) -> Vec<(u8, &V)> {
        self.iter().map(|(k, v)| (k.to_u8(), v)).collect()
    }
    fn brackets() -> (&'static str, &'static str) {
        ("{", "}")
    }
    fn sorted_show() -> bool {
        true
    }
}
impl<V: Val> MapB for BTreeMap<u8, V> {
    type V = V;
    fn bname() -> String {
        format!("BTreeMap<u8,{}>", V::tname())
    }
    fn all(p: P) -> Vec<Self> {
        partial_maps::<V>(p).into_iter().map(|m| m.into_iter().collect()).collect()
    }
    fn entries(&self) -> Vec<(u8, &V)> {
        self.iter().map(|(k, v)| (*k, v)).collect()
    }
    fn brackets() -> (&'static str, &'static str) {
        ("{", "}")
    }
    fn sorted_show() -> bool {
        true
    }
}
impl<V: Val> MapB for VecMap<u8, V> {
    type V = V;
    fn bname() -> String {
        format!("VecMap<u8,{}>", V::tname())
    }
    // distinct keys only (a map), every key order (the representation keeps insertion order)
    fn all(p: P) -> Vec<Self> {
        let vals = V::uni(p);
        let mut out = vec![];
        for keys in arrangements_upto(p.k) {
            for asg in assignments(&keys, &vals) {
                let (ks, vs): (Vec<u8>, Vec<V>) = asg.into_iter().unzip();
                out.push(VecMap::new(ks, vs));
            }
        }
        out
    }
    fn entries(&self) -> Vec<(u8, &V)> {
        self.keys.iter().copied().zip(self.vals.iter()).collect()
    }
    fn brackets() -> (&'static str, &'static str) {
        ("[", "]")
    }
    fn sorted_show() -> bool {
        false
    }
}
impl<V: Val, const N: usize> MapB for ArrayMap<u8, V, N> {
    type V = V;
    const HAS_EMPTY: bool = N == 0;
    fn bname() -> String {
        format!("ArrayMap<u8,{},{N}>", V::tname())
    }
    fn all(p: P) -> Vec<Self> {
        let vals = V::uni(p);
        let mut out = vec![];
        for keys in arrangements(p.k, N) {
            for asg in assignments(&keys, &vals) {
                let (ks, vs): (Vec<u8>, Vec<V>) = asg.into_iter().unzip();
                out.push(ArrayMap {
                    keys: <[u8; N]>::try_from(ks).unwrap(),
                    vals: <[V; N]>::try_from(vs).ok().unwrap(),
                });
            }
        }
        out
    }
    fn entries(&self) -> Vec<(u8, &V)> {
        self.keys.iter().copied().zip(self.vals.iter()).collect()
    }
    fn brackets() -> (&'static str, &'static str) {
        ("[", "]")
    }
    fn sorted_show() -> bool {
        false
    }
}
impl<V: Val> MapB for OptionMap<u8, V> {
    type V = V;
    fn bname() -> String {
        format!("OptionMap<u8,{}>", V::tname())
    }
    fn all(p: P) -> Vec<Self> {
        let vals = V::uni(p);
        let mut out = vec![OptionMap(None)];
        for k in 0..p.k {
            for v in &vals {
                out.push(OptionMap(Some((k, v.clone()))));
            }
        }
        out
    }
    fn entries(&self) -> Vec<(u8, &V)> {
        self.0.iter().map(|(k, v)| (*k, v)).collect()
    }
    fn brackets() -> (&'static str, &'static str) {
        ("Opt(", ")")
    }
    fn sorted_show() -> bool {
        false
    }
}
impl<V: Val> MapB for SingletonMap<u8, V> {
    type V = V;
    const HAS_EMPTY: bool = false;
    fn bname() -> String {
        format!("SingletonMap<u8,{}>", V::tname())
    }
    fn all(p: P) -> Vec<Self> {
        let vals = V::uni(p);
        let mut out = vec![];
        for k in 0..p.k {
            for v in &vals {
                out.push(SingletonMap(k, v.clone()));
            }
        }
        out
    }
    fn entries(&self) -> Vec<(u8, &V)> {
        vec![(self.0, &self.1)]
    }
    fn brackets() -> (&'static str, &'static str) {
        ("One(", ")")
    }
    fn sorted_show() -> bool {
        false
    }
}
impl<V: Val> MapB for EmptyMap<u8, V> {
    type V = V;
    fn bname() -> String {
        format!("EmptyMap<u8,{}>", V::tname())
    }
    fn all(_p: P) -> Vec<Self> {
        vec![EmptyMap(std::marker::PhantomData, std::marker::PhantomData)]
    }
    fn entries(&self) -> Vec<(u8, &V)> {
        vec![]
    }
    fn brackets() -> (&'static str, &'static str) {
        ("Empty(", ")")
    }
    fn sorted_show() -> bool {
        false
    }
}

impl<B: MapB> Val for MapUnion<B> {
    const TOP_IN_U: bool = false;
    // a map whose values are all bottom is bottom
    const BOT_IN_U: bool = B::HAS_EMPTY || <B::V as Val>::BOT_IN_U;
    fn tname() -> String {
        format!("MapUnion<{}>", B::bname())
    }
    fn uni(p: P) -> Vec<Self> {
        B::all(p).into_iter().map(MapUnion::new).collect()
    }
    fn alpha(&self) -> M {
        M::Map(alpha_map(self.as_reveal_ref()))
    }
    fn show(&self) -> String {
        show_map(self.as_reveal_ref())
    }
}

// ---------------------------------------------------------------------------------------------
// scalars

impl Val for () {
    const TOP_IN_U: bool = true;
    fn tname() -> String {
        "()".into()
    }
    fn uni(_p: P) -> Vec<Self> {
        vec![()]
    }
    fn alpha(&self) -> M {
        M::Unit
    }
    fn show(&self) -> String {
        "()".into()
    }
}

/// Universe of the u8 chains: contains the type's MIN and MAX so is_bot / is_top are non-vacuous.
pub const U8S: [u8; 4] = [0, 1, 2, 255];

impl Val for Max<u8> {
    const TOP_IN_U: bool = true;
    fn tname() -> String {
        "Max<u8>".into()
    }
    fn uni(_p: P) -> Vec<Self> {
        U8S.iter().map(|v| Max::new(*v)).collect()
    }
    fn alpha(&self) -> M {
        M::Chain { v: *self.as_reveal_ref() as i32, lo: 0, hi: 255 }
    }
    fn show(&self) -> String {
        self.as_reveal_ref().to_string()
    }
}
impl Val for Min<u8> {
    const TOP_IN_U: bool = true;
    fn tname() -> String {
        "Min<u8>".into()
    }
    fn uni(_p: P) -> Vec<Self> {
        U8S.iter().map(|v| Min::new(*v)).collect()
    }
    fn alpha(&self) -> M {
        M::Chain { v: -(*self.as_reveal_ref() as i32), lo: -255, hi: 0 }
    }
    fn show(&self) -> String {
        self.as_reveal_ref().to_string()
    }
}
impl Val for Max<bool> {
    const TOP_IN_U: bool = true;
    fn tname() -> String {
        "Max<bool>".into()
    }
    fn uni(_p: P) -> Vec<Self> {
        vec![Max::new(false), Max::new(true)]
    }
    fn alpha(&self) -> M {
        M::Chain { v: *self.as_reveal_ref() as i32, lo: 0, hi: 1 }
    }
    fn show(&self) -> String {
        self.as_reveal_ref().to_string()
    }
}
impl Val for Min<bool> {
    const TOP_IN_U: bool = true;
    fn tname() -> String {
        "Min<bool>".into()
    }
    fn uni(_p: P) -> Vec<Self> {
        vec![Min::new(false), Min::new(true)]
    }
    fn alpha(&self) -> M {
        M::Chain { v: -(*self.as_reveal_ref() as i32), lo: -1, hi: 0 }
    }
    fn show(&self) -> String {
        self.as_reveal_ref().to_string()
    }
}
impl Val for Max<()> {
    const TOP_IN_U: bool = true;
    fn tname() -> String {
        "Max<()>".into()
    }
    fn uni(_p: P) -> Vec<Self> {
        vec![Max::new(())]
    }
    fn alpha(&self) -> M {
        M::Unit
    }
    fn show(&self) -> String {
        "()".into()
    }
}
impl Val for Min<()> {
    const TOP_IN_U: bool = true;
    fn tname() -> String {
        "Min<()>".into()
    }
    fn uni(_p: P) -> Vec<Self> {
        vec![Min::new(())]
    }
    fn alpha(&self) -> M {
        M::Unit
    }
    fn show(&self) -> String {
        "()".into()
    }
}

impl Val for Conflict<u8> {
    const TOP_IN_U: bool = true;
    const BOT_IN_U: bool = false;
    fn tname() -> String {
        "Conflict<u8>".into()
    }
    fn uni(p: P) -> Vec<Self> {
        std::iter::once(Conflict::new(None)).chain((0..p.e.max(2)).map(|v| Conflict::new(Some(v)))).collect()
    }
    fn alpha(&self) -> M {
        M::Flat(self.as_reveal_ref().copied())
    }
    fn show(&self) -> String {
        match self.as_reveal_ref() {
            None => "None".into(),
            Some(v) => format!("Some({v})"),
        }
    }
}

/// Provenance token that fixes the single value of a `Point` lattice instance.
pub trait Prov: 'static {
    const V: u8;
}
#[derive(Clone, Copy, Debug, Default, PartialEq, Eq)]
pub struct Prov0;
#[derive(Clone, Copy, Debug, Default, PartialEq, Eq)]
pub struct Prov1;
#[derive(Clone, Copy, Debug, Default, PartialEq, Eq)]
pub struct Prov255;
impl Prov for Prov0 {
    const V: u8 = 0;
}
impl Prov for Prov1 {
    const V: u8 = 1;
}
impl Prov for Prov255 {
    const V: u8 = 255;
}
/// A `Point<u8, Pr>` lattice has exactly one element ("domain of size one"): the universe is that
/// element. Merges of unequal points (which must panic) are exercised separately (`PointPanics`).
impl<Pr: Prov + Clone> Val for Point<u8, Pr> {
    const TOP_IN_U: bool = true;
    fn tname() -> String {
        format!("Point<u8,#{}>", Pr::V)
    }
    fn uni(_p: P) -> Vec<Self> {
        vec![Point::new(Pr::V)]
    }
    fn alpha(&self) -> M {
        M::Point(self.val)
    }
    fn show(&self) -> String {
        self.val.to_string()
    }
}

// ---------------------------------------------------------------------------------------------
// wrappers

impl<X: Val> Val for WithBot<X> {
    const TOP_IN_U: bool = X::TOP_IN_U;
    fn tname() -> String {
        format!("WithBot<{}>", X::tname())
    }
    fn uni(p: P) -> Vec<Self> {
        std::iter::once(WithBot::new(None)).chain(X::uni(p).into_iter().map(|x| WithBot::new(Some(x)))).collect()
    }
    fn alpha(&self) -> M {
        match self.as_reveal_ref() {
            None => M::Bot,
            Some(x) => {
                let a = x.alpha();
                if is_bot(&a) { M::Bot } else { M::Lift(Box::new(a)) }
            }
        }
    }
    fn show(&self) -> String {
        match self.as_reveal_ref() {
            None => "None".into(),
            Some(x) => format!("Some({})", x.show()),
        }
    }
}
impl<X: Val> Val for WithTop<X> {
    const TOP_IN_U: bool = true;
    const BOT_IN_U: bool = X::BOT_IN_U;
    fn tname() -> String {
        format!("WithTop<{}>", X::tname())
    }
    fn uni(p: P) -> Vec<Self> {
        std::iter::once(WithTop::new(None)).chain(X::uni(p).into_iter().map(|x| WithTop::new(Some(x)))).collect()
    }
    fn alpha(&self) -> M {
        match self.as_reveal_ref() {
            None => M::Top,
            Some(x) => M::Under(Box::new(x.alpha())),
        }
    }
    fn show(&self) -> String {
        match self.as_reveal_ref() {
            None => "None".into(),
            Some(x) => format!("Some({})", x.show()),
        }
    }
}
impl<A: Val, B: Val> Val for Pair<A, B> {
    const TOP_IN_U: bool = A::TOP_IN_U && B::TOP_IN_U;
    const BOT_IN_U: bool = A::BOT_IN_U && B::BOT_IN_U;
    fn tname() -> String {
        format!("Pair<{},{}>", A::tname(), B::tname())
    }
    fn uni(p: P) -> Vec<Self> {
        let bs = B::uni(p);
        A::uni(p).into_iter().flat_map(|a| bs.iter().map(move |b| Pair::new(a.clone(), b.clone())).collect::<Vec<_>>()).collect()
    }
    fn alpha(&self) -> M {
        M::Tuple(vec![self.a.alpha(), self.b.alpha()])
    }
    fn show(&self) -> String {
        format!("({},{})", self.a.show(), self.b.show())
    }
}
/// Only instantiated with totally ordered keys (`Max<_>`/`Min<_>`), as the property states.
impl<A: Val, B: Val> Val for DomPair<A, B> {
    const TOP_IN_U: bool = A::TOP_IN_U && B::TOP_IN_U;
    const BOT_IN_U: bool = A::BOT_IN_U && B::BOT_IN_U;
    fn tname() -> String {
        format!("DomPair<{},{}>", A::tname(), B::tname())
    }
    fn uni(p: P) -> Vec<Self> {
        let bs = B::uni(p);
        A::uni(p).into_iter().flat_map(|a| bs.iter().map(move |b| DomPair::new(a.clone(), b.clone())).collect::<Vec<_>>()).collect()
    }
    fn alpha(&self) -> M {
        let (k, v) = self.as_reveal_ref();
        M::Dom(Box::new(k.alpha()), Box::new(v.alpha()))
    }
    fn show(&self) -> String {
        let (k, v) = self.as_reveal_ref();
        format!("({};{})", k.show(), v.show())
    }
}
impl<X: Val> Val for VecUnion<X> {
    const TOP_IN_U: bool = false;
    fn tname() -> String {
        format!("VecUnion<{}>", X::tname())
    }
    fn uni(p: P) -> Vec<Self> {
        seqs_upto(&X::uni(p), p.l as usize).into_iter().map(VecUnion::new).collect()
    }
    fn alpha(&self) -> M {
        M::Vec(self.as_reveal_ref().iter().map(|x| x.alpha()).collect())
    }
    fn show(&self) -> String {
        format!("[{}]", join_str(self.as_reveal_ref().iter().map(|x| x.show()), ","))
    }
}

// ---------------------------------------------------------------------------------------------
// union-find

pub const UF_ITEMS: u8 = 3;

pub trait UfB: Clone + 'static {
    fn bname() -> String;
    fn all(p: P) -> Vec<Self>;
    fn edges(&self) -> Vec<(u8, u8)>;
    fn sorted_show() -> bool;
}

/// Parent maps (as sorted edge lists) of every forest reachable from the empty union-find by at
/// most `p.l` calls of the real `UnionFind::union` over `p.k` items, plus — for each of them — the
/// variants in which any subset of the items that have no entry get an explicit self-loop entry
/// (the standard "root points to itself" representation, which `find`/`is_bot` explicitly handle).
/// ρ-shaped / cyclic maps are never produced (candidate F3: `find` may not terminate on them).
fn uf_reachable(p: P) -> Vec<Vec<(u8, u8)>> {
    type UF = UnionFind<BTreeMap<u8, Cell<u8>>>;
    let rebuild = |e: &Vec<(u8, u8)>| -> UF { UnionFind::new(e.iter().map(|(k, q)| (*k, Cell::new(*q))).collect()) };
    let edges_of = |u: &UF| -> Vec<(u8, u8)> { u.as_reveal_ref().iter().map(|(k, q)| (*k, q.get())).collect() };
    let mut seen: BTreeSet<Vec<(u8, u8)>> = BTreeSet::new();
    let mut frontier: Vec<Vec<(u8, u8)>> = vec![vec![]];
    seen.insert(vec![]);
    for _ in 0..p.l {
        let mut next = vec![];
        for st in &frontier {
            for a in 0..p.k {
                for b in 0..p.k {
                    let mut u = rebuild(st);
                    u.union(a, b);
                    let e = edges_of(&u);
                    if seen.insert(e.clone()) {
                        next.push(e);
                    }
                }
            }
        }
        frontier = next;
    }
    let mut out: BTreeSet<Vec<(u8, u8)>> = BTreeSet::new();
    for st in &seen {
        let free: Vec<u8> = (0..p.k).filter(|i| !st.iter().any(|(k, _)| k == i)).collect();
        for sub in subsets(free.len() as u8) {
            let mut e = st.clone();
            for i in sub {
                e.push((free[i as usize], free[i as usize]));
            }
            e.sort();
            out.insert(e);
        }
    }
    out.into_iter().collect()
}

impl UfB for HashMap<u8, Cell<u8>> {
    fn bname() -> String {
        "HashMap<u8,Cell<u8>>".into()
    }
    fn all(p: P) -> Vec<Self> {
        uf_reachable(p).into_iter().map(|e| e.into_iter().map(|(k, q)| (k, Cell::new(q))).collect()).collect()
    }
    fn edges(&self) -> Vec<(u8, u8)> {
        self.iter().map(|(k, q)| (*k, q.get())).collect()
    }
    fn sorted_show() -> bool {
        true
    }
}
impl UfB for BTreeMap<u8, Cell<u8>> {
    fn bname() -> String {
        "BTreeMap<u8,Cell<u8>>".into()
    }
    fn all(p: P) -> Vec<Self> {
        uf_reachable(p).into_iter().map(|e| e.into_iter().map(|(k, q)| (k, Cell::new(q))).collect()).collect()
    }
    fn edges(&self) -> Vec<(u8, u8)> {
        self.iter().map(|(k, q)| (*k, q.get())).collect()
    }
    fn sorted_show() -> bool {
        true
    }
}
/// Delta only: *every* parent map over the items (arbitrary edge lists, including cyclic ones —
/// legal as a merged-in edge list; never used as a receiver).
impl UfB for VecMap<u8, Cell<u8>> {
    fn bname() -> String {
        "VecMap<u8,Cell<u8>>".into()
    }
    fn all(p: P) -> Vec<Self> {
        let parents: Vec<u8> = (0..p.k).collect();
        let mut out = vec![];
        for keys in subsets(p.k) {
            for asg in assignments(&keys, &parents) {
                let (ks, vs): (Vec<u8>, Vec<u8>) = asg.into_iter().unzip();
                out.push(VecMap::new(ks, vs.into_iter().map(Cell::new).collect()));
            }
        }
        out
    }
    fn edges(&self) -> Vec<(u8, u8)> {
        self.keys.iter().copied().zip(self.vals.iter().map(|c| c.get())).collect()
    }
    fn sorted_show() -> bool {
        false
    }
}
impl UfB for SingletonMap<u8, Cell<u8>> {
    fn bname() -> String {
        "SingletonMap<u8,Cell<u8>>".into()
    }
    fn all(p: P) -> Vec<Self> {
        (0..p.k).flat_map(|a| (0..p.k).map(move |b| SingletonMap(a, Cell::new(b)))).collect()
    }
    fn edges(&self) -> Vec<(u8, u8)> {
        vec![(self.0, self.1.get())]
    }
    fn sorted_show() -> bool {
        false
    }
}
impl UfB for OptionMap<u8, Cell<u8>> {
    fn bname() -> String {
        "OptionMap<u8,Cell<u8>>".into()
    }
    fn all(p: P) -> Vec<Self> {
        std::iter::once(OptionMap(None))
            .chain((0..p.k).flat_map(|a| (0..p.k).map(move |b| OptionMap(Some((a, Cell::new(b)))))))
            .collect()
    }
    fn edges(&self) -> Vec<(u8, u8)> {
        self.0.iter().map(|(k, q)| (*k, q.get())).collect()
    }
    fn sorted_show() -> bool {
        false
    }
}
impl UfB for ArrayMap<u8, Cell<u8>, 2> {
    fn bname() -> String {
        "ArrayMap<u8,Cell<u8>,2>".into()
    }
    fn all(p: P) -> Vec<Self> {
        let parents: Vec<u8> = (0..p.k).collect();
        let mut out = vec![];
        for keys in arrangements(p.k, 2) {
            for asg in assignments(&keys, &parents) {
                out.push(ArrayMap {
                    keys: [asg[0].0, asg[1].0],
                    vals: [Cell::new(asg[0].1), Cell::new(asg[1].1)],
                });
            }
        }
        out
    }
    fn edges(&self) -> Vec<(u8, u8)> {
        self.keys.iter().copied().zip(self.vals.iter().map(|c| c.get())).collect()
    }
    fn sorted_show() -> bool {
        false
    }
}

impl<B: UfB> Val for UnionFind<B> {
    const TOP_IN_U: bool = false;
    fn tname() -> String {
        format!("UnionFind<{}>", B::bname())
    }
    fn uni(p: P) -> Vec<Self> {
        B::all(P { k: UF_ITEMS.max(p.k), ..p }).into_iter().map(UnionFind::new).collect()
    }
    fn alpha(&self) -> M {
        M::Part(partition(self.as_reveal_ref().edges()))
    }
    fn show(&self) -> String {
        let mut e = self.as_reveal_ref().edges();
        if B::sorted_show() {
            e.sort();
        }
        format!("uf[{}]", join_str(e.iter().map(|(k, q)| format!("{k}>{q}")), ","))
    }
}

// ---------------------------------------------------------------------------------------------
// tombstones (well-formed replicas only: live ∩ tomb = ∅, as the data structure's invariant says)

impl<S: SetB, T: SetB> Val for SetUnionWithTombstones<S, T> {
    const TOP_IN_U: bool = false;
    const BOT_IN_U: bool = S::HAS_EMPTY && T::HAS_EMPTY;
    fn tname() -> String {
        format!("SetUnionWithTombstones<{},{}>", S::bname(), T::bname())
    }
    fn uni(p: P) -> Vec<Self> {
        let ts = T::all(p);
        let mut out = vec![];
        for s in S::all(p) {
            for t in &ts {
                let te = t.elems();
                if s.elems().iter().all(|x| !te.contains(x)) {
                    out.push(SetUnionWithTombstones::new(s.clone(), t.clone()));
                }
            }
        }
        out
    }
    fn alpha(&self) -> M {
        let (s, t) = self.as_reveal_ref();
        M::TSet { live: s.elems().into_iter().collect(), tomb: t.elems().into_iter().collect() }
    }
    fn show(&self) -> String {
        let (s, t) = self.as_reveal_ref();
        format!("{}/{}", show_set(s), show_set(t))
    }
}
impl<B: MapB, T: SetB> Val for MapUnionWithTombstones<B, T> {
    const TOP_IN_U: bool = false;
    const BOT_IN_U: bool = (B::HAS_EMPTY || <B::V as Val>::BOT_IN_U) && T::HAS_EMPTY;
    fn tname() -> String {
        format!("MapUnionWithTombstones<{},{}>", B::bname(), T::bname())
    }
    fn uni(p: P) -> Vec<Self> {
        // tombstone sets range over the KEY domain
        let ts = T::all(P { e: p.k, ..p });
        let mut out = vec![];
        for m in B::all(p) {
            for t in &ts {
                let te = t.elems();
                if m.entries().iter().all(|(k, _)| !te.contains(k)) {
                    out.push(MapUnionWithTombstones::new(m.clone(), t.clone()));
                }
            }
        }
        out
    }
    fn alpha(&self) -> M {
        let (m, t) = self.as_reveal_ref();
        M::TMap { live: alpha_map(m), tomb: t.elems().into_iter().collect() }
    }
    fn show(&self) -> String {
        let (m, t) = self.as_reveal_ref();
        format!("{}/{}", show_map(m), show_set(t))
    }
}

// ---------------------------------------------------------------------------------------------
// #[derive(Lattice)] structs (through lattices' re-export of lattices_macro)

#[derive(Clone, Debug, Default, Lattice)]
pub struct D2 {
    pub a: Max<u8>,
    pub b: SetUnion<HashSet<u8>>,
}
impl Val for D2 {
    const TOP_IN_U: bool = false;
    fn tname() -> String {
        "D2{Max<u8>,SetUnion<HashSet<u8>>}".into()
    }
    fn uni(p: P) -> Vec<Self> {
        let bs = <SetUnion<HashSet<u8>>>::uni(p);
        <Max<u8>>::uni(p).into_iter().flat_map(|a| bs.iter().map(move |b| D2 { a, b: b.clone() }).collect::<Vec<_>>()).collect()
    }
    fn alpha(&self) -> M {
        M::Tuple(vec![self.a.alpha(), self.b.alpha()])
    }
    fn show(&self) -> String {
        format!("D2({},{})", self.a.show(), self.b.show())
    }
}

#[derive(Clone, Debug, Default, Lattice)]
pub struct D3 {
    pub a: Max<bool>,
    pub b: WithBot<Min<u8>>,
    pub c: SetUnion<BTreeSet<u8>>,
}
impl Val for D3 {
    const TOP_IN_U: bool = false;
    fn tname() -> String {
        "D3{Max<bool>,WithBot<Min<u8>>,SetUnion<BTreeSet<u8>>}".into()
    }
    fn uni(p: P) -> Vec<Self> {
        let mut out = vec![];
        for a in <Max<bool>>::uni(p) {
            for b in <WithBot<Min<u8>>>::uni(p) {
                for c in <SetUnion<BTreeSet<u8>>>::uni(p) {
                    out.push(D3 { a, b, c });
                }
            }
        }
        out
    }
    fn alpha(&self) -> M {
        M::Tuple(vec![self.a.alpha(), self.b.alpha(), self.c.alpha()])
    }
    fn show(&self) -> String {
        format!("D3({},{},{})", self.a.show(), self.b.show(), self.c.show())
    }
}

/// Tuple-struct form with three scalar-ish fields that all have a top inside the universe.
#[derive(Clone, Debug, Default, Lattice)]
pub struct D3T(pub Max<bool>, pub Min<bool>, pub WithBot<Max<bool>>);
impl Val for D3T {
    const TOP_IN_U: bool = true;
    fn tname() -> String {
        "D3T(Max<bool>,Min<bool>,WithBot<Max<bool>>)".into()
    }
    fn uni(p: P) -> Vec<Self> {
        let mut out = vec![];
        for a in <Max<bool>>::uni(p) {
            for b in <Min<bool>>::uni(p) {
                for c in <WithBot<Max<bool>>>::uni(p) {
                    out.push(D3T(a, b, c));
                }
            }
        }
        out
    }
    fn alpha(&self) -> M {
        M::Tuple(vec![self.0.alpha(), self.1.alpha(), self.2.alpha()])
    }
    fn show(&self) -> String {
        format!("D3T({},{},{})", self.0.show(), self.1.show(), self.2.show())
    }
}

#[derive(Clone, Debug, Default, Lattice)]
pub struct DG<A, B> {
    pub x: A,
    pub y: B,
}
impl<A: Val, B: Val> Val for DG<A, B> {
    const TOP_IN_U: bool = A::TOP_IN_U && B::TOP_IN_U;
    const BOT_IN_U: bool = A::BOT_IN_U && B::BOT_IN_U;
    fn tname() -> String {
        format!("DG<{},{}>", A::tname(), B::tname())
    }
    fn uni(p: P) -> Vec<Self> {
        let ys = B::uni(p);
        A::uni(p).into_iter().flat_map(|x| ys.iter().map(move |y| DG { x: x.clone(), y: y.clone() }).collect::<Vec<_>>()).collect()
    }
    fn alpha(&self) -> M {
        M::Tuple(vec![self.x.alpha(), self.y.alpha()])
    }
    fn show(&self) -> String {
        format!("DG({},{})", self.x.show(), self.y.show())
    }
}
