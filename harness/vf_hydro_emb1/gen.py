#!/usr/bin/env python3
"""Deterministic generator of the depth<=2 program family of engine E1 (no RNG).

Writes (all three files are committed; re-run only when the grammar changes):
  progs/src/family.rs        Hydro programs  g_<op1>[__<op2>]  (safe top-level APIs only; the ONLY
                          nondet!() uses are in the output adapter `out_*` of progs/src/adapt.rs)
  emb/gen_build.rs        build.rs fragment instantiating each program through generate_embedded
  emb/src/gen_table.rs    run-time table: name, description, output kind, reference semantics

Grammar: every term is a chain  leaf `a` -> op1 [-> op2]  over element type (i32,i32); binary
operators take the second embedded input `b`; cross_singleton takes the embedded singleton `s`.
Operators whose natural result type is not (i32,i32) are followed by a fixed normalising `map`
(listed with the operator) so that the family stays closed under composition.
"""
import os

HERE = os.path.dirname(os.path.abspath(__file__))

T, N = "Total", "NoOrder"

# ---- stream -> stream operators -------------------------------------------------------------
# name: (needs_total, out_order(in_order), hydro code (x = input expr), reference expr, uses_b, uses_s)
SS = [
    ("map", False, lambda o: o,
     "{x}.map(q!(|(k, v)| ((k + v) % 2, v + 1)))", "r_map({x})", False, False),
    ("filter", False, lambda o: o,
     "{x}.filter(q!(|&(_k, v)| v != 1))", "r_filter({x})", False, False),
    ("flat_map_ordered", False, lambda o: o,
     "{x}.flat_map_ordered(q!(|(k, v)| vec![(k, v), (1 - k, v + 10)]))", "r_flat_map({x})", False, False),
    ("flat_map_unordered", False, lambda o: N,
     "{x}.flat_map_unordered(q!(|(k, v)| vec![(k, v), (1 - k, v + 10)]))", "r_flat_map({x})", False, False),
    ("filter_map", False, lambda o: o,
     "{x}.filter_map(q!(|(k, v)| if v > 0 {{ Some((k, v - 1)) }} else {{ None }}))", "r_filter_map({x})", False, False),
    ("inspect", False, lambda o: o,
     "{x}.inspect(q!(|_x| {{}}))", "{x}", False, False),
    ("enumerate", True, lambda o: T,
     "{x}.enumerate().map(q!(|(i, (k, v))| (k, v * 10 + i as i32)))", "r_enumerate({x})", False, False),
    ("unique", False, lambda o: o,
     "{x}.unique()", "r_unique({x})", False, False),
    ("chain", False, lambda o: o,
     "p.source_iter(q!(vec![(0, 7), (1, 8)])).chain({x})", "r_chain({x})", False, False),
    ("merge_unordered", False, lambda o: N,
     "{x}.merge_unordered(b.clone())", "r_merge({x}, b.to_vec())", True, False),
    ("join", False, lambda o: N,
     "{x}.join(b.clone()).map(q!(|(k, (v1, v2))| (k, v1 * 10 + v2)))", "r_join({x}, b.to_vec())", True, False),
    ("cross_product", False, lambda o: N,
     "{x}.cross_product(b.clone()).map(q!(|((k1, v1), (k2, v2))| (k1 + 2 * k2, v1 * 10 + v2)))",
     "r_cross({x}, b.to_vec())", True, False),
    ("anti_join", False, lambda o: o,
     "{x}.anti_join(p.source_iter(q!(vec![1])))", "r_anti_join({x})", False, False),
    ("filter_not_in", False, lambda o: o,
     "{x}.filter_not_in(p.source_iter(q!(vec![(0, 1), (1, 0)])))", "r_filter_not_in({x})", False, False),
    ("scan", True, lambda o: T,
     "{x}.scan(q!(|| 0i32), q!(|acc, (k, v)| {{ *acc += v; Some((k, *acc)) }}))", "r_scan({x})", False, False),
    ("cross_singleton", False, lambda o: o,
     "{x}.cross_singleton(s.clone()).map(q!(|((k, v), s)| (k, v + 100 * s)))", "r_cross_singleton({x}, s)", False, True),
    ("keyed_entries", False, lambda o: N,
     "{x}.into_keyed().entries()", "{x}", False, False),
    ("keyed_keys", False, lambda o: N,
     "{x}.into_keyed().keys().map(q!(|k| (k, 0)))", "r_keys({x})", False, False),
]

# ---- stream -> terminal operators -----------------------------------------------------------
# name: (needs_total, {order: hydro code}, reference expr, adapter, outkind)
FOLD_T = "{x}.fold(q!(|| 0i32), q!(|acc, (k, v)| *acc = acc.wrapping_mul(3).wrapping_add(k + 2 * v)))"
FOLD_N = "{x}.fold(q!(|| 0i32), q!(|acc, (k, v)| *acc += k + 2 * v, commutative = manual_proof!(/** integer sum */)))"
RED_T = "{x}.reduce(q!(|acc, (k, v)| {{ acc.0 = acc.0.wrapping_mul(3).wrapping_add(k); acc.1 = acc.1.wrapping_mul(3).wrapping_add(v); }}))"
RED_N = "{x}.reduce(q!(|acc, (k, v)| {{ acc.0 += k; acc.1 += v; }}, commutative = manual_proof!(/** componentwise sum */)))"
KFOLD_T = "{x}.into_keyed().fold(q!(|| 0i32), q!(|acc, v| *acc = acc.wrapping_mul(3).wrapping_add(v)))"
KFOLD_N = "{x}.into_keyed().fold(q!(|| 0i32), q!(|acc, v| *acc += v, commutative = manual_proof!(/** integer sum */)))"
KRED_T = "{x}.into_keyed().reduce(q!(|acc, v| *acc = acc.wrapping_mul(3).wrapping_add(v)))"
KRED_N = "{x}.into_keyed().reduce(q!(|acc, v| *acc += v, commutative = manual_proof!(/** integer sum */)))"

ST = [
    ("fold", False, {T: FOLD_T, N: FOLD_N}, {T: "r_fold_t({x})", N: "r_fold_n({x})"}, "out_singleton", "Last"),
    ("reduce", False, {T: RED_T, N: RED_N}, {T: "r_reduce_t({x})", N: "r_reduce_n({x})"}, "out_optional", "Last"),
    ("count", False, {T: "{x}.count()", N: "{x}.count()"}, {T: "r_count({x})", N: "r_count({x})"}, "out_singleton", "Last"),
    ("max", False, {T: "{x}.max()", N: "{x}.max()"}, {T: "r_max({x})", N: "r_max({x})"}, "out_optional", "Last"),
    ("min", False, {T: "{x}.min()", N: "{x}.min()"}, {T: "r_min({x})", N: "r_min({x})"}, "out_optional", "Last"),
    ("first", True, {T: "{x}.first()"}, {T: "r_first({x})"}, "out_optional", "Last"),
    ("last", True, {T: "{x}.last()"}, {T: "r_last({x})"}, "out_optional", "Last"),
    ("keyed_fold", False, {T: KFOLD_T, N: KFOLD_N}, {T: "r_kfold_t({x})", N: "r_kfold_n({x})"}, "out_keyed_singleton", "Last"),
    ("keyed_reduce", False, {T: KRED_T, N: KRED_N}, {T: "r_kfold_t({x})", N: "r_kfold_n({x})"}, "out_keyed_singleton", "Last"),
    ("keyed_value_counts", False, {T: "{x}.into_keyed().value_counts()", N: "{x}.into_keyed().value_counts()"},
     {T: "r_kcount({x})", N: "r_kcount({x})"}, "out_keyed_singleton", "Last"),
    ("keyed_first", True, {T: "{x}.into_keyed().first()"}, {T: "r_kfirst({x})"}, "out_keyed_bounded_value", "Multiset"),
]


# First operators of the depth-2 compositions that are compiled by default ("core" family); the other
# first operators are compiled only with VF_EMB1_FAMILY=full (see emb/build.rs). Second operators: all.
CORE_FIRST = ["map", "unique", "merge_unordered", "join"]


def programs():
    """Yield (name, desc, body_lines, outkind, ref_expr, uses_b, uses_s, out_total, depth)."""
    out = []

    def finish(name, desc, x, order, rx, ub, us, depth):
        # stream-typed result
        if order == T:
            out.append((name, desc, f"out_total({x});", "Seq", f"RefOut::Stream({rx})", ub, us, True, depth))
        else:
            out.append((name, desc, f"out_unordered({x});", "Multiset", f"RefOut::Stream({rx})", ub, us, False, depth))

    def terminal(name, desc, x, order, rx, ub, us, t, depth):
        tname, needs_total, codes, refs, adapter, kind = t
        if needs_total and order != T:
            return
        code = codes[order].format(x=x)
        ref = refs[order].format(x=rx)
        wrap = "RefOut::Stream" if kind == "Multiset" else "RefOut::Value"
        out.append((name, desc, f"{adapter}(&p, {code});", kind, f"{wrap}({ref})", ub, us, False, depth))

    # depth 0: identity (corpus baseline)
    finish("g_id", "a", "a", T, "a.to_vec()", False, False, 0)
    for (n1, need1, oo1, c1, r1, ub1, us1) in SS:
        x1 = c1.format(x="a")
        rx1 = r1.format(x="a.to_vec()")
        o1 = oo1(T)
        finish(f"g_{n1}", f"a.{n1}", x1, o1, rx1, ub1, us1, 1)
        for (n2, need2, oo2, c2, r2, ub2, us2) in SS:
            if need2 and o1 != T:
                continue
            finish(f"g_{n1}__{n2}", f"a.{n1}.{n2}", c2.format(x=x1), oo2(o1), r2.format(x=rx1),
                   ub1 or ub2, us1 or us2, 2)
        for t in ST:
            terminal(f"g_{n1}__{t[0]}", f"a.{n1}.{t[0]}", x1, o1, rx1, ub1, us1, t, 2)
    for t in ST:
        terminal(f"g_{t[0]}", f"a.{t[0]}", "a", T, "a.to_vec()", False, False, t, 1)
    return out


def main():
    progs = programs()
    g = ["// @generated by gen.py -- do not edit by hand.",
         "#![allow(clippy::all, unused_variables, non_snake_case)]",
         "use hydro_lang::prelude::*;",
         "",
         "use crate::adapt::*;",
         ""]
    for (name, desc, body, kind, ref, ub, us, ot, depth) in progs:
        g.append(f"/// `{desc}`")
        g.append(f"pub fn {name}<'a>(a: SP<'a>, b: SP<'a>, s: SG<'a>) {{")
        g.append("    let p = a.location().clone();")
        g.append(f"    {body}")
        g.append("}")
        g.append("")
    open(os.path.join(HERE, "progs/src/family.rs"), "w").write("\n".join(g))

    b = ["// @generated by gen.py -- do not edit by hand.",
         "fn gen_all(out: &mut String, sel: &Select) {"]
    for p in progs:
        first = p[0][2:].split("__")[0]
        core = p[8] <= 1 or first in CORE_FIRST
        b.append(f"    gen_prog!(out, sel, {'true' if core else 'false'}, {p[0]}, vf_hydro_progs1::family::{p[0]});")
    b.append("}")
    open(os.path.join(HERE, "emb/gen_build.rs"), "w").write("\n".join(b) + "\n")

    t = ["// @generated by gen.py -- do not edit by hand.",
         "pub fn gen_table() -> Vec<Prog> {",
         "    #[allow(unused_mut)]",
         "    let mut v = Vec::new();"]
    for (name, desc, body, kind, ref, ub, us, ot, depth) in progs:
        t.append(f"    #[cfg({name})]")
        t.append("    v.push(Prog {")
        t.append(f"        name: \"{name}\", desc: \"{desc}\", exec: exec_prog!({name}), out: OutKind::{kind},")
        t.append(f"        uses_b: {str(ub).lower()}, uses_s: {str(us).lower()}, depth: {depth}, keyed_out: false,")
        t.append(f"        reference: Some(|a: &[E], b: &[E], s: i32| {{ let _ = (b, s); {ref} }}),")
        t.append("    });")
    t.append("    v")
    t.append("}")
    open(os.path.join(HERE, "emb/src/gen_table.rs"), "w").write("\n".join(t) + "\n")
    print(sum(1 for p in progs if p[8] <= 1 or p[0][2:].split("__")[0] in CORE_FIRST), "core of",
          len(progs), "programs;",
          sum(1 for p in progs if p[8] == 1), "depth-1,",
          sum(1 for p in progs if p[8] == 2), "depth-2,",
          sum(1 for p in progs if p[5]), "use b,", sum(1 for p in progs if p[6]), "use s,",
          sum(1 for p in progs if p[7]), "TotalOrder stream outputs")


if __name__ == "__main__":
    main()
