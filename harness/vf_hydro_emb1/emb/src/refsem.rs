//! Iterator-semantics reference for the generated family: every operator of gen.py applied to the
//! WHOLE input at once (plain Vec code, no ticks, no dataflow). For unordered intermediate
//! streams the reference picks one order; only order-insensitive consumers can follow (the types
//! of the family guarantee that), and the comparison is by multiset.
use std::collections::BTreeMap;

pub type E = (i32, i32);

pub enum RefOut {
    Stream(Vec<E>),
    /// Encoded (crate `enc`) final value of a singleton / optional / keyed singleton.
    Value(Vec<i64>),
}

pub fn r_map(x: Vec<E>) -> Vec<E> {
    x.into_iter().map(|(k, v)| ((k + v) % 2, v + 1)).collect()
}
pub fn r_filter(x: Vec<E>) -> Vec<E> {
    x.into_iter().filter(|&(_k, v)| v != 1).collect()
}
pub fn r_flat_map(x: Vec<E>) -> Vec<E> {
    x.into_iter().flat_map(|(k, v)| vec![(k, v), (1 - k, v + 10)]).collect()
}
pub fn r_filter_map(x: Vec<E>) -> Vec<E> {
    x.into_iter().filter_map(|(k, v)| if v > 0 { Some((k, v - 1)) } else { None }).collect()
}
pub fn r_enumerate(x: Vec<E>) -> Vec<E> {
    x.into_iter().enumerate().map(|(i, (k, v))| (k, v * 10 + i as i32)).collect()
}
pub fn r_unique(x: Vec<E>) -> Vec<E> {
    let mut out: Vec<E> = vec![];
    for e in x {
        if !out.contains(&e) {
            out.push(e);
        }
    }
    out
}
pub fn r_chain(x: Vec<E>) -> Vec<E> {
    let mut out = vec![(0, 7), (1, 8)];
    out.extend(x);
    out
}
pub fn r_merge(x: Vec<E>, b: Vec<E>) -> Vec<E> {
    let mut out = x;
    out.extend(b);
    out
}
pub fn r_join(x: Vec<E>, b: Vec<E>) -> Vec<E> {
    let mut out = vec![];
    for &(k, v1) in &x {
        for &(k2, v2) in &b {
            if k == k2 {
                out.push((k, v1 * 10 + v2));
            }
        }
    }
    out
}
pub fn r_cross(x: Vec<E>, b: Vec<E>) -> Vec<E> {
    let mut out = vec![];
    for &(k1, v1) in &x {
        for &(k2, v2) in &b {
            out.push((k1 + 2 * k2, v1 * 10 + v2));
        }
    }
    out
}
pub fn r_anti_join(x: Vec<E>) -> Vec<E> {
    x.into_iter().filter(|&(k, _)| k != 1).collect()
}
pub fn r_filter_not_in(x: Vec<E>) -> Vec<E> {
    x.into_iter().filter(|e| *e != (0, 1) && *e != (1, 0)).collect()
}
pub fn r_scan(x: Vec<E>) -> Vec<E> {
    let mut acc = 0i32;
    x.into_iter()
        .map(|(k, v)| {
            acc += v;
            (k, acc)
        })
        .collect()
}
pub fn r_cross_singleton(x: Vec<E>, s: i32) -> Vec<E> {
    x.into_iter().map(|(k, v)| (k, v + 100 * s)).collect()
}
pub fn r_keys(x: Vec<E>) -> Vec<E> {
    let mut ks: Vec<i32> = vec![];
    for (k, _) in x {
        if !ks.contains(&k) {
            ks.push(k);
        }
    }
    ks.into_iter().map(|k| (k, 0)).collect()
}

// ---- terminals (encodings must match vf_hydro_progs1::enc) -------------------------------------
fn e_opt_pair(o: Option<E>) -> Vec<i64> {
    match o {
        None => vec![-1000],
        Some((k, v)) => vec![-1001, k as i64, v as i64],
    }
}
fn e_map(m: BTreeMap<i32, i64>) -> Vec<i64> {
    let mut out = vec![-2000 - m.len() as i64];
    for (k, v) in m {
        out.push(k as i64);
        out.push(v);
    }
    out
}
pub fn r_fold_t(x: Vec<E>) -> Vec<i64> {
    let mut acc = 0i32;
    for (k, v) in x {
        acc = acc.wrapping_mul(3).wrapping_add(k + 2 * v);
    }
    vec![acc as i64]
}
pub fn r_fold_n(x: Vec<E>) -> Vec<i64> {
    vec![x.into_iter().map(|(k, v)| k + 2 * v).sum::<i32>() as i64]
}
pub fn r_reduce_t(x: Vec<E>) -> Vec<i64> {
    let mut it = x.into_iter();
    let Some(mut acc) = it.next() else { return vec![-1000] };
    for (k, v) in it {
        acc.0 = acc.0.wrapping_mul(3).wrapping_add(k);
        acc.1 = acc.1.wrapping_mul(3).wrapping_add(v);
    }
    e_opt_pair(Some(acc))
}
pub fn r_reduce_n(x: Vec<E>) -> Vec<i64> {
    if x.is_empty() {
        return vec![-1000];
    }
    e_opt_pair(Some((x.iter().map(|e| e.0).sum(), x.iter().map(|e| e.1).sum())))
}
pub fn r_count(x: Vec<E>) -> Vec<i64> {
    vec![x.len() as i64]
}
pub fn r_max(x: Vec<E>) -> Vec<i64> {
    e_opt_pair(x.into_iter().max())
}
pub fn r_min(x: Vec<E>) -> Vec<i64> {
    e_opt_pair(x.into_iter().min())
}
pub fn r_first(x: Vec<E>) -> Vec<i64> {
    e_opt_pair(x.first().copied())
}
pub fn r_last(x: Vec<E>) -> Vec<i64> {
    e_opt_pair(x.last().copied())
}
pub fn r_kfold_t(x: Vec<E>) -> Vec<i64> {
    // also the reference of keyed reduce: reduce starts from the first value v0, and
    // 0*3 + v0 == v0, so both agree.
    let mut m: BTreeMap<i32, i32> = BTreeMap::new();
    for (k, v) in x {
        let a = m.entry(k).or_insert(0);
        *a = a.wrapping_mul(3).wrapping_add(v);
    }
    e_map(m.into_iter().map(|(k, v)| (k, v as i64)).collect())
}
pub fn r_kfold_n(x: Vec<E>) -> Vec<i64> {
    let mut m: BTreeMap<i32, i64> = BTreeMap::new();
    for (k, v) in x {
        *m.entry(k).or_insert(0) += v as i64;
    }
    e_map(m)
}
pub fn r_kcount(x: Vec<E>) -> Vec<i64> {
    let mut m: BTreeMap<i32, i64> = BTreeMap::new();
    for (k, _) in x {
        *m.entry(k).or_insert(0) += 1;
    }
    e_map(m)
}
pub fn r_kfirst(x: Vec<E>) -> Vec<E> {
    let mut m: BTreeMap<i32, i32> = BTreeMap::new();
    for (k, v) in x {
        m.entry(k).or_insert(v);
    }
    m.into_iter().collect()
}
