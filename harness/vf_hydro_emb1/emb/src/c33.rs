//! C33 — monotonicity and bounded-value annotations are truthful.
use std::collections::BTreeMap;

use vf_explore::{Report, Stats, json, ncpu, par_map};

use crate::c28::{ALPHA3, inputs};
use crate::driver::Obs;
use crate::hand_table::{MProg, Oblig};
use crate::model::*;

fn decode_map(snap: &[i64]) -> BTreeMap<i64, Vec<i64>> {
    let mut m = BTreeMap::new();
    let n = (-2000 - snap[0]) as usize;
    if n > 0 {
        let w = (snap.len() - 1) / n;
        for c in snap[1..].chunks(w) {
            m.insert(c[0], c[1..].to_vec());
        }
    }
    m
}

/// Judge the snapshot history of one run against the obligation of the collection's bound type.
pub fn judge(ob: Oblig, obs: &Obs) -> Option<String> {
    let snaps = &obs.items;
    match ob {
        Oblig::MonotonicScalar => {
            for (i, w) in snaps.windows(2).enumerate() {
                if w[1] < w[0] {
                    return Some(format!("monotonic singleton decreased from {:?} to {:?} between snapshots {} and {}", w[0], w[1], i, i + 1));
                }
            }
        }
        Oblig::MonotonicValue | Oblig::MonotonicKeys | Oblig::BoundedValue => {
            for (i, w) in snaps.windows(2).enumerate() {
                let (a, b) = (decode_map(&w[0]), decode_map(&w[1]));
                for (k, va) in &a {
                    match b.get(k) {
                        None => return Some(format!("key {k} disappeared between snapshots {} and {} ({:?} -> {:?})", i, i + 1, a, b)),
                        Some(vb) => {
                            if ob == Oblig::MonotonicValue && vb < va {
                                return Some(format!("monotonic value of key {k} decreased from {va:?} to {vb:?} between snapshots {} and {}", i, i + 1));
                            }
                            if ob == Oblig::BoundedValue && vb != va {
                                return Some(format!("bounded value of key {k} changed from {va:?} to {vb:?} between snapshots {} and {}", i, i + 1));
                            }
                        }
                    }
                }
            }
        }
        Oblig::BoundedValueEntries => {
            let mut seen: BTreeMap<i64, Vec<i64>> = BTreeMap::new();
            for it in snaps {
                if let Some(prev) = seen.insert(it[0], it[1..].to_vec()) {
                    return Some(format!("entries() of a bounded-value keyed singleton streamed key {} twice ({:?} then {:?})", it[0], prev, &it[1..]));
                }
            }
        }
    }
    None
}

pub fn run_c33(rep: &mut Report, progs: &[MProg]) {
    let thorough = rep.thorough();
    let n = if thorough { 5 } else { 4 };
    rep.rule = "case = (program, input, schedule): one run = one history of per-tick snapshots; non-trivial iff the history \
                contains at least two different snapshots; schedules as in C28 (all interleavings x all cuts x 0..2 trailing ticks)"
        .into();
    rep.explanation = "programs whose result TYPE carries Monotonic / MonotonicValue / MonotonicKeys / BoundedValue (the type \
                       annotation is checked by rustc in progs/src/hand.rs) are snapshotted once per tick; between consecutive \
                       snapshots of a run: keys never disappear, Monotonic / MonotonicValue values never decrease (Ord of the \
                       value type), BoundedValue entries never change, and entries() streams each key once"
        .into();
    rep.assume("obligations are read from the doc comments of SingletonBound/Monotonic and KeyedSingletonBound/{MonotonicValue,MonotonicKeys,BoundedValue} in hydro_lang; plain `Unbounded` promises nothing and is not checked");
    rep.assume("bounded-value keyed singletons are snapshotted through the library's own into_singleton(); monotone user folds use non-negative inputs so that the user's manual_proof is true");
    rep.bound("max_total_input_len", n);
    rep.bound("alphabet", json!(ALPHA3));
    rep.bound("trailing_empty_ticks", json!([0, 1, 2]));
    rep.bound("programs", progs.len());
    // shard = (program, chunk of inputs)
    let mut work = vec![];
    for (pi, mp) in progs.iter().enumerate() {
        let ins = inputs(&mp.prog, n, &ALPHA3, &[1]);
        let chunk = ins.len().div_ceil(8).max(1);
        for c in ins.chunks(chunk) {
            work.push((pi, c.to_vec()));
        }
    }
    let st = par_map(work.len(), ncpu().min(16), |i| {
        let (pi, ins) = &work[i];
        let mp = &progs[*pi];
        let p = &mp.prog;
        let mut st = Stats::new();
        'outer: for (a, b, s) in ins {
            for sc in schedules(a, b, *s, 2) {
                let obs = match vf_explore::catch(|| (p.exec)(&sc)) {
                    Ok(o) => o,
                    Err(msg) => {
                        st.violation(format!("C33:{}:panic", p.name), format!("program `{}` panicked under {}: {msg}", p.desc, sc.to_json()),
                            json!({"kind": "monotone", "program": p.name, "schedules": [sc.to_json()]}));
                        break 'outer;
                    }
                };
                st.eval();
                st.outcome(&(p.name, &obs.items));
                let mut d = obs.items.clone();
                d.dedup();
                if d.len() > 1 {
                    st.nontrivial(&(p.name, &sc));
                }
                if let Some(why) = judge(mp.oblig, &obs) {
                    let again = (p.exec)(&sc);
                    if again != obs {
                        crate::c28::machinery(&format!("{}: non-reproducing run", p.name));
                    }
                    st.violation(
                        format!("C33:{}:{:?}", p.name, mp.oblig),
                        format!("program `{}` (promise {:?}) under schedule {}: {why}; snapshot history {:?}", p.desc, mp.oblig, sc.to_json(), obs.items),
                        json!({"kind": "monotone", "program": p.name, "schedules": [sc.to_json()]}),
                    );
                    break 'outer;
                }
            }
        }
        for v in &st.violations {
            println!("  violation-key: {}", v.key);
        }
        let ev = st.evaluations;
        st.sample(|| json!({"program": p.name, "term": p.desc, "promise": format!("{:?}", mp.oblig), "executions_in_shard": ev}));
        st
    });
    println!("[C33] programs={} executions={}", progs.len(), st.evaluations);
    rep.section("snapshot_histories", st);
}
