//! Run-time table of the hand-written programs (progs/src/hand.rs) with their references.
use std::collections::BTreeMap;

use crate::driver::E;
use crate::exec_prog;
use crate::model::{OutKind, Prog};
use crate::refsem::RefOut;

fn e_pairs(v: &[E]) -> Vec<i64> {
    let mut out = vec![-2000 - v.len() as i64];
    for (k, x) in v {
        out.push(*k as i64);
        out.push(*x as i64);
    }
    out
}
fn e_opt_pair(o: Option<E>) -> Vec<i64> {
    match o {
        None => vec![-1000],
        Some((k, v)) => vec![-1001, k as i64, v as i64],
    }
}
fn firsts(a: &[E]) -> BTreeMap<i32, i32> {
    let mut m = BTreeMap::new();
    for (k, v) in a {
        m.entry(*k).or_insert(*v);
    }
    m
}
fn counts(a: &[E]) -> BTreeMap<i32, i32> {
    let mut m = BTreeMap::new();
    for (k, _) in a {
        *m.entry(*k).or_insert(0) += 1;
    }
    m
}
fn fold3(vals: impl Iterator<Item = i32>) -> i32 {
    vals.fold(0i32, |acc, v| acc.wrapping_mul(3).wrapping_add(v))
}

/// `prog!(@ ..)` builds a `Prog`; `prog!(v, ..)` pushes it when the program was compiled in
/// (build.rs sets one `--cfg <program name>` per instantiated program, see VF_EMB1_FAMILY).
macro_rules! prog {
    ($v:ident, $name:ident, $desc:expr, $out:ident, b=$ub:expr, s=$us:expr, keyed=$k:expr, $r:expr) => {
        #[cfg($name)]
        $v.push(prog!(@ $name, $desc, $out, b = $ub, s = $us, keyed = $k, $r));
    };
    (@ $name:ident, $desc:expr, $out:ident, b=$ub:expr, s=$us:expr, keyed=$k:expr, $r:expr) => {
        Prog {
            name: stringify!($name),
            desc: $desc,
            exec: exec_prog!($name),
            out: OutKind::$out,
            uses_b: $ub,
            uses_s: $us,
            depth: 0,
            keyed_out: $k,
            reference: $r,
        }
    };
}

// ---------------------------------------------------------------------------------- corpus (C28)
pub fn corpus() -> Vec<Prog> {
    #[allow(unused_mut)]
    let mut v = Vec::new();
        prog!(v, c_prefix, "a.cross_singleton(s).map", Seq, b = false, s = true, keyed = false,
            Some(|a: &[E], _b: &[E], s: i32| RefOut::Stream(a.iter().map(|(k, v)| (*k, v + 100 * s)).collect())));
        prog!(v, c_capitalize, "a.map", Seq, b = false, s = false, keyed = false,
            Some(|a: &[E], _b: &[E], _s: i32| RefOut::Stream(a.iter().map(|(k, v)| (*k, v * 7)).collect())));
        prog!(v, c_into_stream_chain, "s.into_stream().map.chain(a)", Seq, b = false, s = true, keyed = false,
            Some(|a: &[E], _b: &[E], s: i32| {
                let mut v = vec![(9, s)];
                v.extend_from_slice(a);
                RefOut::Stream(v)
            }));
        prog!(v, c_sort_chain, "source_iter.sort().chain(a)", Seq, b = false, s = false, keyed = false,
            Some(|a: &[E], _b: &[E], _s: i32| {
                let mut v = vec![(0, 1), (0, 5), (1, 2)];
                v.extend_from_slice(a);
                RefOut::Stream(v)
            }));
        prog!(v, c_collect_vec, "a.collect_vec()", Last, b = false, s = false, keyed = false,
            Some(|a: &[E], _b: &[E], _s: i32| RefOut::Value(e_pairs(a))));
        prog!(v, c_limit, "a.limit(2)", Seq, b = false, s = false, keyed = false,
            Some(|a: &[E], _b: &[E], _s: i32| RefOut::Stream(a.iter().take(2).copied().collect())));
        prog!(v, c_zip_count_fold, "a.cross_singleton(s.zip(source_iter.fold))", Seq, b = false, s = true, keyed = false,
            Some(|a: &[E], _b: &[E], s: i32| RefOut::Stream(a.iter().map(|(k, v)| (*k, v + 100 * s + 11000)).collect())));
        prog!(v, c_bounded_fold_stream, "source_iter.fold().into_stream().chain(a)", Seq, b = false, s = false, keyed = false,
            Some(|a: &[E], _b: &[E], _s: i32| {
                let mut v = vec![(9, 11)];
                v.extend_from_slice(a);
                RefOut::Stream(v)
            }));
        prog!(v, c_bounded_reduce_stream, "source_iter.reduce().into_stream().chain(a)", Seq, b = false, s = false, keyed = false,
            Some(|a: &[E], _b: &[E], _s: i32| {
                let mut v = vec![(9, 11)];
                v.extend_from_slice(a);
                RefOut::Stream(v)
            }));
        prog!(v, c_optional_or, "a.filter.max().or(b.min())", Last, b = true, s = false, keyed = false,
            Some(|a: &[E], b: &[E], _s: i32| {
                let m = a.iter().filter(|e| e.1 == 2).max().copied().or(b.iter().min().copied());
                RefOut::Value(e_opt_pair(m))
            }));
        prog!(v, c_singleton_filter, "a.count().filter(odd)", Last, b = false, s = false, keyed = false,
            Some(|a: &[E], _b: &[E], _s: i32| {
                RefOut::Value(if a.len() % 2 == 1 { vec![-1001, a.len() as i64] } else { vec![-1000] })
            }));
        prog!(v, c_is_some_and, "a.first().is_some()", Last, b = false, s = false, keyed = false,
            Some(|a: &[E], _b: &[E], _s: i32| RefOut::Value(vec![!a.is_empty() as i64])));
        prog!(v, c_key_count, "a.into_keyed().fold.key_count()", Last, b = false, s = false, keyed = false,
            Some(|a: &[E], _b: &[E], _s: i32| RefOut::Value(vec![firsts(a).len() as i64])));
        prog!(v, c_key_count_bounded_value, "a.into_keyed().first().key_count()", Last, b = false, s = false, keyed = false,
            Some(|a: &[E], _b: &[E], _s: i32| RefOut::Value(vec![firsts(a).len() as i64])));
        prog!(v, c_join_keyed, "a.into_keyed().join_keyed_stream(b.into_keyed())", Multiset, b = true, s = false, keyed = false,
            Some(|a: &[E], b: &[E], _s: i32| RefOut::Stream(crate::refsem::r_join(a.to_vec(), b.to_vec()))));
        prog!(v, c_keyed_merge_fold, "a.into_keyed().merge_unordered(b.into_keyed()).fold(sum)", Last, b = true, s = false, keyed = false,
            Some(|a: &[E], b: &[E], _s: i32| {
                let mut all = a.to_vec();
                all.extend_from_slice(b);
                RefOut::Value(crate::refsem::r_kfold_n(all))
            }));
        prog!(v, c_join_bounded, "a.join(source_iter)", Seq, b = false, s = false, keyed = false,
            Some(|a: &[E], _b: &[E], _s: i32| RefOut::Stream(crate::refsem::r_join(a.to_vec(), vec![(0, 5), (1, 6), (0, 7)]))));
        // ---- x_*: remaining safe public APIs, depth 1
        prog!(v, x_thr_count_1, "a.count().threshold_greater_or_equal(1)", Seq, b = false, s = false, keyed = false,
            Some(|a: &[E], _b: &[E], _s: i32| RefOut::Stream(if a.len() >= 1 { vec![(0, 1)] } else { vec![] })));
        prog!(v, x_thr_count_2, "a.count().threshold_greater_or_equal(2)", Seq, b = false, s = false, keyed = false,
            Some(|a: &[E], _b: &[E], _s: i32| RefOut::Stream(if a.len() >= 2 { vec![(0, 2)] } else { vec![] })));
        prog!(v, x_thr_count_3, "a.count().threshold_greater_or_equal(3)", Seq, b = false, s = false, keyed = false,
            Some(|a: &[E], _b: &[E], _s: i32| RefOut::Stream(if a.len() >= 3 { vec![(0, 3)] } else { vec![] })));
        prog!(v, x_thr_count_s, "a.count().threshold_greater_or_equal(s)", Seq, b = false, s = true, keyed = false,
            Some(|a: &[E], _b: &[E], s: i32| RefOut::Stream(if a.len() as i32 >= s { vec![(0, s)] } else { vec![] })));
        prog!(v, x_thr_fold_1, "a.fold(sum, monotone).threshold_greater_or_equal(1)", Seq, b = false, s = false, keyed = false,
            Some(|a: &[E], _b: &[E], _s: i32| RefOut::Stream(if a.iter().map(|e| e.1).sum::<i32>() >= 1 { vec![(0, 1)] } else { vec![] })));
        prog!(v, x_thr_fold_2, "a.fold(sum, monotone).threshold_greater_or_equal(2)", Seq, b = false, s = false, keyed = false,
            Some(|a: &[E], _b: &[E], _s: i32| RefOut::Stream(if a.iter().map(|e| e.1).sum::<i32>() >= 2 { vec![(0, 2)] } else { vec![] })));
        prog!(v, x_thr_fold_3, "a.fold(sum, monotone).threshold_greater_or_equal(3)", Seq, b = false, s = false, keyed = false,
            Some(|a: &[E], _b: &[E], _s: i32| RefOut::Stream(if a.iter().map(|e| e.1).sum::<i32>() >= 3 { vec![(0, 3)] } else { vec![] })));
        prog!(v, x_kthr_uniform_1, "keyed.value_counts().threshold_greater_or_equal_uniform(1)", Multiset, b = false, s = false, keyed = false,
            Some(|a: &[E], _b: &[E], _s: i32| RefOut::Stream(counts(a).into_iter().filter(|(_, c)| *c >= 1).map(|(k, _)| (k, 1)).collect())));
        prog!(v, x_kthr_uniform_2, "keyed.value_counts().threshold_greater_or_equal_uniform(2)", Multiset, b = false, s = false, keyed = false,
            Some(|a: &[E], _b: &[E], _s: i32| RefOut::Stream(counts(a).into_iter().filter(|(_, c)| *c >= 2).map(|(k, _)| (k, 2)).collect())));
        prog!(v, x_kthr_counts, "keyed(a).value_counts().threshold_greater_or_equal(keyed(b).first())", Multiset, b = true, s = false, keyed = false,
            Some(|a: &[E], b: &[E], _s: i32| {
                let c = counts(a);
                RefOut::Stream(firsts(b).into_iter().filter(|(k, t)| c.get(k).is_some_and(|n| *n >= *t)).collect())
            }));
        prog!(v, x_kthr_first, "keyed(a).first().threshold_greater_or_equal(keyed(b).first())", Multiset, b = true, s = false, keyed = false,
            Some(|a: &[E], b: &[E], _s: i32| {
                let f = firsts(a);
                RefOut::Stream(firsts(b).into_iter().filter(|(k, t)| f.get(k).is_some_and(|n| *n >= *t)).collect())
            }));
        prog!(v, x_sg_map, "a.fold().map()", Last, b = false, s = false, keyed = false,
            Some(|a: &[E], _b: &[E], _s: i32| RefOut::Value(vec![(fold3(a.iter().map(|e| e.1)).wrapping_mul(2).wrapping_add(1)) as i64])));
        prog!(v, x_sg_filter_map, "a.count().filter_map()", Last, b = false, s = false, keyed = false,
            Some(|a: &[E], _b: &[E], _s: i32| RefOut::Value(if a.len() % 2 == 0 { vec![-1001, a.len() as i64 + 10] } else { vec![-1000] })));
        prog!(v, x_sg_into_optional, "a.max().into_singleton().into_optional()", Last, b = false, s = false, keyed = false,
            Some(|a: &[E], _b: &[E], _s: i32| RefOut::Value(e_opt_pair(a.iter().max().copied()))));
        prog!(v, x_sg_not, "!a.first().is_some()", Last, b = false, s = false, keyed = false,
            Some(|a: &[E], _b: &[E], _s: i32| RefOut::Value(vec![a.is_empty() as i64])));
        prog!(v, x_sg_bool_filter_if, "a.filter_if((s==1 or s==2) and !(s==2))", Seq, b = false, s = true, keyed = false,
            Some(|a: &[E], _b: &[E], s: i32| RefOut::Stream(if s == 1 { a.to_vec() } else { vec![] })));
        prog!(v, x_sg_filter_if, "s.filter_if(s==1).into_stream().chain(a)", Seq, b = false, s = true, keyed = false,
            Some(|a: &[E], _b: &[E], s: i32| {
                let mut v = if s == 1 { vec![(9, s)] } else { vec![] };
                v.extend_from_slice(a);
                RefOut::Stream(v)
            }));
        prog!(v, x_sg_flat_map_ordered, "s.flat_map_ordered().chain(a)", Seq, b = false, s = true, keyed = false,
            Some(|a: &[E], _b: &[E], s: i32| {
                let mut v = vec![(8, s), (9, s)];
                v.extend_from_slice(a);
                RefOut::Stream(v)
            }));
        prog!(v, x_sg_flatten_unordered, "s.map().flatten_unordered().chain(a)", Multiset, b = false, s = true, keyed = false,
            Some(|a: &[E], _b: &[E], s: i32| {
                let mut v = vec![(8, s), (9, s)];
                v.extend_from_slice(a);
                RefOut::Stream(v)
            }));
        prog!(v, x_op_map, "a.max().map()", Last, b = false, s = false, keyed = false,
            Some(|a: &[E], _b: &[E], _s: i32| RefOut::Value(e_opt_pair(a.iter().max().map(|e| (e.0, e.1 + 1))))));
        prog!(v, x_op_filter, "a.max().filter()", Last, b = false, s = false, keyed = false,
            Some(|a: &[E], _b: &[E], _s: i32| RefOut::Value(e_opt_pair(a.iter().max().copied().filter(|e| e.1 != 0)))));
        prog!(v, x_op_filter_map, "a.last().filter_map()", Last, b = false, s = false, keyed = false,
            Some(|a: &[E], _b: &[E], _s: i32| RefOut::Value(match a.last() {
                Some((k, v)) if *v > 0 => vec![-1001, (k + v) as i64],
                _ => vec![-1000],
            })));
        prog!(v, x_op_unwrap_or, "a.max().unwrap_or(b.fold(last))", Last, b = true, s = false, keyed = false,
            Some(|a: &[E], b: &[E], _s: i32| {
                let (k, v) = a.iter().max().copied().unwrap_or(b.last().copied().unwrap_or((7, 7)));
                RefOut::Value(vec![k as i64, v as i64])
            }));
        prog!(v, x_op_unwrap_or_default, "a.min().unwrap_or_default()", Last, b = false, s = false, keyed = false,
            Some(|a: &[E], _b: &[E], _s: i32| {
                let (k, v) = a.iter().min().copied().unwrap_or((0, 0));
                RefOut::Value(vec![k as i64, v as i64])
            }));
        prog!(v, x_op_is_none, "a.filter().first().is_none()", Last, b = false, s = false, keyed = false,
            Some(|a: &[E], _b: &[E], _s: i32| RefOut::Value(vec![!a.iter().any(|e| e.1 == 2) as i64])));
        prog!(v, x_op_into_keyed_singleton, "a.max().into_keyed_singleton()", Last, b = false, s = false, keyed = false,
            Some(|a: &[E], _b: &[E], _s: i32| RefOut::Value(match a.iter().max() {
                Some((k, v)) => vec![-2001, *k as i64, *v as i64],
                None => vec![-2000],
            })));
        prog!(v, x_op_bounded, "bounded optional filter/zip/is_some_and_equals/filter_if/flatten", Seq, b = false, s = true, keyed = false,
            Some(|a: &[E], _b: &[E], s: i32| {
                let mut v = if s == 1 { vec![(1, 1), (7, 1)] } else { vec![] };
                v.extend_from_slice(a);
                RefOut::Stream(v)
            }));
        prog!(v, x_ks_values, "keyed.first().values()", Multiset, b = false, s = false, keyed = false,
            Some(|a: &[E], _b: &[E], _s: i32| RefOut::Stream(firsts(a).into_iter().map(|(_, v)| (0, v)).collect())));
        prog!(v, x_ks_keys, "keyed.first().keys()", Multiset, b = false, s = false, keyed = false,
            Some(|a: &[E], _b: &[E], _s: i32| RefOut::Stream(firsts(a).into_iter().map(|(k, _)| (k, 0)).collect())));
        prog!(v, x_ks_map_with_key_inspect, "keyed.first().map_with_key().inspect().inspect_with_key()", Multiset, b = false, s = false, keyed = false,
            Some(|a: &[E], _b: &[E], _s: i32| RefOut::Stream(firsts(a).into_iter().map(|(k, v)| (k, v + 10 * k)).collect())));
        prog!(v, x_ks_filter_map, "keyed.first().filter_map()", Multiset, b = false, s = false, keyed = false,
            Some(|a: &[E], _b: &[E], _s: i32| RefOut::Stream(firsts(a).into_iter().filter(|(_, v)| *v > 0).map(|(k, v)| (k, v - 1)).collect())));
        prog!(v, x_ks_filter_key_not_in, "keyed.first().filter_key_not_in([1])", Multiset, b = false, s = false, keyed = false,
            Some(|a: &[E], _b: &[E], _s: i32| RefOut::Stream(firsts(a).into_iter().filter(|(k, _)| *k != 1).collect())));
        prog!(v, x_ks_into_keyed_stream, "keyed.first().into_keyed_stream()", KeyedSeq, b = false, s = false, keyed = false,
            Some(|a: &[E], _b: &[E], _s: i32| RefOut::Stream(firsts(a).into_iter().collect())));
        prog!(v, x_ks_unbounded_map_with_key, "keyed.fold().map_with_key()", Last, b = false, s = false, keyed = false,
            Some(|a: &[E], _b: &[E], _s: i32| {
                let mut m: BTreeMap<i32, i32> = BTreeMap::new();
                for (k, x) in a {
                    let e = m.entry(*k).or_insert(0);
                    *e = e.wrapping_mul(3).wrapping_add(*x);
                }
                let mut out = vec![-2000 - m.len() as i64];
                for (k, x) in m {
                    out.push(k as i64);
                    out.push((x + 1000 * k) as i64);
                }
                RefOut::Value(out)
            }));
        prog!(v, x_ks_get, "const_ks.get(s % 2).into_stream().chain(a)", Seq, b = false, s = true, keyed = false,
            Some(|a: &[E], _b: &[E], s: i32| {
                let mut v = vec![(9, if s % 2 == 0 { 5 } else { 6 })];
                v.extend_from_slice(a);
                RefOut::Stream(v)
            }));
        prog!(v, x_ks_join_keyed_stream, "const_ks.join_keyed_stream(keyed(a))", KeyedSeq, b = false, s = false, keyed = false,
            Some(|a: &[E], _b: &[E], _s: i32| RefOut::Stream(a.iter().filter(|e| e.0 == 0 || e.0 == 1).map(|e| (e.0, e.1 * 10 + 5 + e.0)).collect())));
        prog!(v, x_ks_join_lookup, "const_ks.join_keyed_singleton / lookup_keyed_singleton .chain(a)", Multiset, b = false, s = false, keyed = false,
            Some(|a: &[E], _b: &[E], _s: i32| {
                let mut v = vec![(1, 63), (100, 550), (101, 599)];
                v.extend_from_slice(a);
                RefOut::Stream(v)
            }));
        prog!(v, x_flatten_ordered, "a.map(vec).flatten_ordered()", Seq, b = false, s = false, keyed = false,
            Some(|a: &[E], _b: &[E], _s: i32| RefOut::Stream(crate::refsem::r_flat_map(a.to_vec()))));
        prog!(v, x_flatten_unordered, "a.map(vec).flatten_unordered()", Multiset, b = false, s = false, keyed = false,
            Some(|a: &[E], _b: &[E], _s: i32| RefOut::Stream(crate::refsem::r_flat_map(a.to_vec()))));
        prog!(v, x_partition_true, "a.partition().0", Seq, b = false, s = false, keyed = false,
            Some(|a: &[E], _b: &[E], _s: i32| RefOut::Stream(a.iter().copied().filter(|e| e.1 != 1).collect())));
        prog!(v, x_partition_merge, "a.partition(): true.map().merge_unordered(false)", Multiset, b = false, s = false, keyed = false,
            Some(|a: &[E], _b: &[E], _s: i32| RefOut::Stream(a.iter().map(|e| if e.1 != 1 { (e.0, e.1 + 100) } else { *e }).collect())));
        prog!(v, x_generator, "a.generator()", Seq, b = false, s = false, keyed = false,
            Some(|a: &[E], _b: &[E], _s: i32| {
                let mut acc = 0;
                let mut out = vec![];
                for (k, x) in a {
                    acc += x;
                    if acc >= 4 {
                        out.push((*k, acc));
                        break;
                    } else if *x != 0 {
                        out.push((*k, acc));
                    }
                }
                RefOut::Stream(out)
            }));
        prog!(v, x_atomic_roundtrip, "a.ir_node_named().atomic().end_atomic()", Seq, b = false, s = false, keyed = false,
            Some(|a: &[E], _b: &[E], _s: i32| RefOut::Stream(a.to_vec())));
        prog!(v, x_bounded_nested_loop, "source_iter.cross_product_nested_loop(source_iter).chain(a)", Seq, b = false, s = false, keyed = false, None);
        prog!(v, x_k_values, "keyed.values()", Multiset, b = false, s = false, keyed = false,
            Some(|a: &[E], _b: &[E], _s: i32| RefOut::Stream(a.iter().map(|e| (0, e.1)).collect())));
        prog!(v, x_at_scan, "a.atomic().scan().end_atomic()", Seq, b = false, s = false, keyed = false,
            Some(|a: &[E], _b: &[E], _s: i32| RefOut::Stream(crate::refsem::r_scan(a.to_vec()))));
        prog!(v, x_at_limit, "a.atomic().limit(2).end_atomic()", Seq, b = false, s = false, keyed = false,
            Some(|a: &[E], _b: &[E], _s: i32| RefOut::Stream(a.iter().take(2).copied().collect())));
        prog!(v, x_at_enumerate, "a.atomic().enumerate().end_atomic()", Seq, b = false, s = false, keyed = false,
            Some(|a: &[E], _b: &[E], _s: i32| RefOut::Stream(crate::refsem::r_enumerate(a.to_vec()))));
        prog!(v, x_at_generator, "a.atomic().generator().end_atomic()", Seq, b = false, s = false, keyed = false,
            Some(|a: &[E], _b: &[E], _s: i32| {
                let mut acc = 0;
                let mut out = vec![];
                for (k, x) in a {
                    acc += x;
                    if acc >= 4 {
                        out.push((*k, acc));
                        break;
                    } else if *x != 0 {
                        out.push((*k, acc));
                    }
                }
                RefOut::Stream(out)
            }));
        prog!(v, x_at_first, "a.atomic().first() [atomic snapshots]", Last, b = false, s = false, keyed = false,
            Some(|a: &[E], _b: &[E], _s: i32| RefOut::Value(e_opt_pair(a.first().copied()))));
        prog!(v, c_get_max_key, "a.into_keyed().first().get_max_key()", Last, b = false, s = false, keyed = false,
            Some(|a: &[E], _b: &[E], _s: i32| RefOut::Value(e_opt_pair(firsts(a).into_iter().next_back()))));
    v
}

// ------------------------------------------------------------------------------ keyed (C29, C28)
/// Per-key reference: the elements (without the key) key `k` must produce from its values.
pub type KRef = fn(i32, &[i32], i32) -> Vec<Vec<i64>>;
pub struct KProg {
    pub prog: Prog,
    pub kref: KRef,
}

fn each(v: impl Iterator<Item = i32>) -> Vec<Vec<i64>> {
    v.map(|x| vec![x as i64]).collect()
}

pub fn keyed() -> Vec<KProg> {
    macro_rules! kp {
        ($v:ident, $name:ident, $desc:expr, $out:ident, s=$us:expr, $kref:expr) => {
            #[cfg($name)]
            $v.push(KProg { prog: prog!(@ $name, $desc, $out, b = false, s = $us, keyed = true, None), kref: $kref });
        };
    }
    #[allow(unused_mut)]
    let mut v = Vec::new();
        kp!(v, k_id, "a.into_keyed()", KeyedSeq, s = false, |_k, v, _s| each(v.iter().copied()));
        kp!(v, k_map, "keyed.map", KeyedSeq, s = false, |_k, v, _s| each(v.iter().map(|x| x * 2 + 1)));
        kp!(v, k_map_with_key, "keyed.map_with_key", KeyedSeq, s = false, |k, v, _s| each(v.iter().map(|x| x + 10 * k)));
        kp!(v, k_filter, "keyed.filter", KeyedSeq, s = false, |_k, v, _s| each(v.iter().copied().filter(|x| *x != 1)));
        kp!(v, k_filter_map, "keyed.filter_map", KeyedSeq, s = false, |_k, v, _s| each(v.iter().filter(|x| **x > 0).map(|x| x - 1)));
        kp!(v, k_flat_map_ordered, "keyed.flat_map_ordered", KeyedSeq, s = false, |_k, v, _s| each(v.iter().flat_map(|x| [*x, x + 10])));
        kp!(v, k_inspect, "keyed.inspect", KeyedSeq, s = false, |_k, v, _s| each(v.iter().copied()));
        kp!(v, k_scan, "keyed.scan", KeyedSeq, s = false, |_k, v, _s| {
            let mut acc = 0i32;
            each(v.iter().map(|x| {
                acc = acc.wrapping_mul(3).wrapping_add(*x);
                acc
            }))
        });
        kp!(v, k_enumerate, "keyed.enumerate", KeyedSeq, s = false, |_k, v, _s| each(v.iter().enumerate().map(|(i, x)| x * 10 + i as i32)));
        kp!(v, k_limit, "keyed.limit(2)", KeyedSeq, s = false, |_k, v, _s| each(v.iter().take(2).copied()));
        kp!(v, k_cross_singleton, "keyed.cross_singleton(s)", KeyedSeq, s = true, |_k, v, s| each(v.iter().map(|x| x + 100 * s)));
        kp!(v, k_filter_key_not_in, "keyed.filter_key_not_in([1])", KeyedSeq, s = false, |k, v, _s| {
            if k == 1 { vec![] } else { each(v.iter().copied()) }
        });
        kp!(v, k_join_keyed_singleton, "keyed.join_keyed_singleton({0:5,1:6})", KeyedSeq, s = false, |k, v, _s| match k {
            0 => each(v.iter().map(|x| x * 10 + 5)),
            1 => each(v.iter().map(|x| x * 10 + 6)),
            _ => vec![],
        });
        kp!(v, k_fold, "keyed.fold", Last, s = false, |_k, v, _s| vec![vec![fold3(v.iter().copied()) as i64]]);
        kp!(v, k_reduce, "keyed.reduce", Last, s = false, |_k, v, _s| vec![vec![fold3(v.iter().copied()) as i64]]);
        kp!(v, k_value_counts, "keyed.value_counts", Last, s = false, |_k, v, _s| vec![vec![v.len() as i64]]);
        kp!(v, k_first, "keyed.first", Multiset, s = false, |_k, v, _s| vec![vec![v[0] as i64]]);
        kp!(v, k_fold_early_stop, "keyed.fold_early_stop", Multiset, s = false, |_k, v, _s| {
            let mut acc = 0i32;
            for x in v {
                acc = acc.wrapping_mul(3).wrapping_add(*x);
                if acc >= 3 {
                    return vec![vec![acc as i64]];
                }
            }
            vec![]
        });
        kp!(v, k_prefix_drop, "keyed.prefix_key().drop_key_prefix()", Multiset, s = false, |_k, v, _s| {
            let mut u = v.to_vec();
            u.sort();
            each(u.into_iter())
        });
        kp!(v, k_filter_with_key, "keyed.filter_with_key", KeyedSeq, s = false, |k, v, _s| each(v.iter().copied().filter(|x| k + x != 1)));
        kp!(v, k_filter_map_with_key, "keyed.filter_map_with_key", KeyedSeq, s = false, |k, v, _s| each(v.iter().filter(|x| **x > 0).map(|x| x + 10 * k)));
        kp!(v, k_inspect_with_key, "keyed.inspect_with_key", KeyedSeq, s = false, |_k, v, _s| each(v.iter().copied()));
        kp!(v, k_flatten_ordered, "keyed.map(vec).flatten_ordered", KeyedSeq, s = false, |_k, v, _s| each(v.iter().flat_map(|x| [*x, x + 10])));
        kp!(v, k_flat_map_flatten_unordered, "keyed.flat_map_unordered().flatten_unordered()", Multiset, s = false, |_k, v, _s| {
            let mut u: Vec<i32> = v.iter().flat_map(|x| [*x, x + 10]).collect();
            u.sort();
            each(u.into_iter())
        });
        kp!(v, k_generator, "keyed.generator", KeyedSeq, s = false, |_k, v, _s| {
            let mut acc = 0;
            let mut out = vec![];
            for x in v {
                acc += x;
                if acc >= 3 {
                    out.push(acc);
                    break;
                } else if *x != 0 {
                    out.push(acc);
                }
            }
            each(out.into_iter())
        });
        kp!(v, k_atomic_roundtrip, "keyed.atomic().end_atomic()", KeyedSeq, s = false, |_k, v, _s| each(v.iter().copied()));
        kp!(v, k_at_scan, "keyed.atomic().scan().end_atomic()", KeyedSeq, s = false, |_k, v, _s| {
            let mut acc = 0i32;
            each(v.iter().map(|x| {
                acc = acc.wrapping_mul(3).wrapping_add(*x);
                acc
            }))
        });
        kp!(v, k_at_enumerate, "keyed.atomic().enumerate().end_atomic()", KeyedSeq, s = false, |_k, v, _s| each(v.iter().enumerate().map(|(i, x)| x * 10 + i as i32)));
        kp!(v, k_at_limit, "keyed.atomic().limit(1).end_atomic()", KeyedSeq, s = false, |_k, v, _s| each(v.iter().take(1).copied()));
        kp!(v, k_at_generator, "keyed.atomic().generator().end_atomic()", KeyedSeq, s = false, |_k, v, _s| {
            let mut acc = 0;
            let mut out = vec![];
            for x in v {
                acc += x;
                if acc >= 3 {
                    out.push(acc);
                    break;
                } else if *x != 0 {
                    out.push(acc);
                }
            }
            each(out.into_iter())
        });
        kp!(v, k_at_first, "keyed.atomic().first().end_atomic()", Multiset, s = false, |_k, v, _s| vec![vec![v[0] as i64]]);
        kp!(v, k_at_fold_early_stop, "keyed.atomic().fold_early_stop().end_atomic()", Multiset, s = false, |_k, v, _s| {
            let mut acc = 0i32;
            for x in v {
                acc = acc.wrapping_mul(3).wrapping_add(*x);
                if acc >= 3 {
                    return vec![vec![acc as i64]];
                }
            }
            vec![]
        });
        kp!(v, k_unique, "keyed.unique", Multiset, s = false, |_k, v, _s| {
            let mut u: Vec<i32> = v.to_vec();
            u.sort();
            u.dedup();
            each(u.into_iter())
        });
    v
}

/// `k_get` has a plain (non-keyed) TotalOrder output.
pub fn keyed_plain() -> Vec<Prog> {
    #[allow(unused_mut)]
    let mut v = Vec::new();
    prog!(v, k_get, "a.into_keyed().get(s % 2)", Seq, b = false, s = true, keyed = false,
        Some(|a: &[E], _b: &[E], s: i32| RefOut::Stream(a.iter().filter(|e| e.0 == s % 2).map(|e| (0, e.1)).collect())));
    v
}

// ------------------------------------------------------------------------------------ weak (C32)
/// Which physical arrival sequences the (weakened) input type admits for one denoted input.
#[derive(Clone, Copy, Debug, PartialEq, Eq)]
pub enum Vary {
    /// TotalOrder + ExactlyOnce: only the base sequence itself.
    Exact,
    /// NoOrder + ExactlyOnce: every permutation.
    AnyOrder,
    /// NoOrder + AtLeastOnce: every permutation of every duplication (each element 1x or 2x).
    AnyOrderDup,
    /// TotalOrder + AtLeastOnce: the base sequence with each element delivered 1x or 2x in a row.
    AdjacentDup,
    /// Keyed TotalOrder: every interleaving of the per-key subsequences.
    PerKeyOrder,
}
pub struct WProg {
    pub prog: Prog,
    pub vary: Vary,
    /// Tick-scoped operator: the whole input is delivered in ONE tick and only that tick's output
    /// is observed.
    pub single_tick: bool,
    pub site: &'static str,
}

pub fn weak() -> Vec<WProg> {
    macro_rules! wp {
        ($v:ident, $name:ident, $desc:expr, $out:ident, b=$ub:expr, $vary:ident, $single:expr, $site:expr, $r:expr) => {
            #[cfg($name)]
            $v.push(WProg { prog: prog!(@ $name, $desc, $out, b = $ub, s = false, keyed = false, $r), vary: Vary::$vary, single_tick: $single, site: $site });
        };
    }
    fn sorted_pairs(m: BTreeMap<i32, i64>) -> Vec<i64> {
        let mut out = vec![-2000 - m.len() as i64];
        for (k, v) in m {
            out.push(k as i64);
            out.push(v);
        }
        out
    }
    #[allow(unused_mut)]
    let mut v = Vec::new();
        wp!(v, w_max, "weakest(a).max()", Last, b = false, AnyOrderDup, false, "Stream::max",
            Some(|a: &[E], _b: &[E], _s: i32| RefOut::Value(e_opt_pair(a.iter().max().copied()))));
        wp!(v, w_min, "weakest(a).min()", Last, b = false, AnyOrderDup, false, "Stream::min",
            Some(|a: &[E], _b: &[E], _s: i32| RefOut::Value(e_opt_pair(a.iter().min().copied()))));
        wp!(v, w_count, "a.weaken_ordering().count()", Last, b = false, AnyOrder, false, "Stream::count",
            Some(|a: &[E], _b: &[E], _s: i32| RefOut::Value(vec![a.len() as i64])));
        wp!(v, w_first, "a.weaken_retries().first()", Last, b = false, AdjacentDup, false, "Stream::first",
            Some(|a: &[E], _b: &[E], _s: i32| RefOut::Value(e_opt_pair(a.first().copied()))));
        wp!(v, w_last, "a.weaken_retries().last()", Last, b = false, AdjacentDup, false, "Stream::last",
            Some(|a: &[E], _b: &[E], _s: i32| RefOut::Value(e_opt_pair(a.last().copied()))));
        wp!(v, w_weaken_ordering, "a.weaken_ordering()", Multiset, b = false, Exact, false, "Stream::weaken_ordering",
            Some(|a: &[E], _b: &[E], _s: i32| RefOut::Stream(a.to_vec())));
        wp!(v, w_weaken_retries, "a.weaken_retries()", Set, b = false, Exact, false, "Stream::weaken_retries",
            Some(|a: &[E], _b: &[E], _s: i32| RefOut::Stream(a.to_vec())));
        wp!(v, w_make_total_exact, "a.make_totally_ordered().make_exactly_once()", Seq, b = false, Exact, false,
            "Stream::make_totally_ordered/make_exactly_once",
            Some(|a: &[E], _b: &[E], _s: i32| RefOut::Stream(a.to_vec())));
        wp!(v, w_keyed_weaken, "keyed.weaken_ordering().weaken_retries()", Set, b = false, PerKeyOrder, false,
            "KeyedStream::weaken_ordering/weaken_retries",
            Some(|a: &[E], _b: &[E], _s: i32| RefOut::Stream(a.to_vec())));
        wp!(v, w_keyed_make_total_exact, "keyed.make_totally_ordered().make_exactly_once()", KeyedSeq, b = false, PerKeyOrder, false,
            "KeyedStream::make_totally_ordered/make_exactly_once",
            Some(|a: &[E], _b: &[E], _s: i32| RefOut::Stream(a.to_vec())));
        wp!(v, w_keyed_value_counts, "keyed.weaken_ordering().value_counts()", Last, b = false, AnyOrder, false,
            "KeyedStream::value_counts",
            Some(|a: &[E], _b: &[E], _s: i32| RefOut::Value(crate::refsem::r_kcount(a.to_vec()))));
        wp!(v, w_is_empty, "weakest(a).batch().is_empty()", Seq, b = false, AnyOrderDup, true, "Stream::is_empty", None);
        wp!(v, w_repeat_with_keys, "weakest(a).batch().repeat_with_keys(b.batch().into_keyed().first())", Set, b = true,
            AnyOrderDup, true, "Stream::repeat_with_keys", None);
        wp!(v, w_ks_into_singleton, "keyed.weaken_ordering().fold(sum).into_singleton()", Last, b = false, AnyOrder, false,
            "KeyedSingleton::into_singleton (into_singleton_inside_tick)",
            Some(|a: &[E], _b: &[E], _s: i32| {
                let mut m: BTreeMap<i32, i64> = BTreeMap::new();
                for (k, v) in a {
                    *m.entry(*k).or_insert(0) += *v as i64;
                }
                RefOut::Value(sorted_pairs(m))
            }));
        wp!(v, w_ks_key_count, "keyed.weaken_ordering().fold(sum).key_count()", Last, b = false, AnyOrder, false,
            "KeyedSingleton::key_count (key_count_inside_tick)",
            Some(|a: &[E], _b: &[E], _s: i32| RefOut::Value(vec![firsts(a).len() as i64])));
        wp!(v, w_ks_into_singleton_bounded_value, "keyed.first().into_singleton()", Last, b = false, PerKeyOrder, false,
            "KeyedSingleton::into_singleton (bounded value)",
            Some(|a: &[E], _b: &[E], _s: i32| RefOut::Value(sorted_pairs(firsts(a).into_iter().map(|(k, v)| (k, v as i64)).collect()))));
        wp!(v, w_ks_key_count_bounded_value, "keyed.first().key_count()", Last, b = false, PerKeyOrder, false,
            "KeyedSingleton::key_count (bounded value)",
            Some(|a: &[E], _b: &[E], _s: i32| RefOut::Value(vec![firsts(a).len() as i64])));
        wp!(v, w_ks_get_max_key, "keyed.first().get_max_key()", Last, b = false, PerKeyOrder, false,
            "KeyedSingleton::get_max_key",
            Some(|a: &[E], _b: &[E], _s: i32| RefOut::Value(e_opt_pair(firsts(a).into_iter().next_back()))));
    v
}

// -------------------------------------------------------------------------------- monotone (C33)
/// Obligation attached to the collection's bound type (see hydro_lang `SingletonBound` /
/// `KeyedSingletonBound`).
#[derive(Clone, Copy, Debug, PartialEq, Eq)]
pub enum Oblig {
    /// `Singleton<_, _, Monotonic>`: "its value will only grow over time".
    MonotonicScalar,
    /// `MonotonicValue`: "once a key appears, it will never be removed, and the corresponding
    /// value will only increase monotonically".
    MonotonicValue,
    /// `MonotonicKeys`: "once a key appears, it will never be removed, but the corresponding value
    /// may change arbitrarily".
    MonotonicKeys,
    /// `BoundedValue`: "entries may be added over time, but once an entry is added it will never
    /// be removed and its value will never change" (observed through snapshots of the whole map).
    BoundedValue,
    /// `BoundedValue` observed through `entries()`: each key is streamed exactly once.
    BoundedValueEntries,
}
pub struct MProg {
    pub prog: Prog,
    pub oblig: Oblig,
}

pub fn monotone() -> Vec<MProg> {
    macro_rules! mp {
        ($v:ident, $name:ident, $desc:expr, $out:ident, b=$ub:expr, $ob:ident) => {
            #[cfg($name)]
            $v.push(MProg { prog: prog!(@ $name, $desc, $out, b = $ub, s = false, keyed = false, None), oblig: Oblig::$ob });
        };
    }
    #[allow(unused_mut)]
    let mut v = Vec::new();
        mp!(v, m_count, "a.count()", Last, b = false, MonotonicScalar);
        mp!(v, m_count_merge, "a.merge_unordered(b).count()", Last, b = true, MonotonicScalar);
        mp!(v, m_count_join, "a.join(b).count()", Last, b = true, MonotonicScalar);
        mp!(v, m_count_unique, "a.unique().count()", Last, b = false, MonotonicScalar);
        mp!(v, m_fold_sum, "a.fold(sum, monotone)", Last, b = false, MonotonicScalar);
        mp!(v, m_fold_max, "a.fold(max, monotone)", Last, b = false, MonotonicScalar);
        mp!(v, m_count_map, "a.count().map(order_preserving)", Last, b = false, MonotonicScalar);
        mp!(v, m_keyed_value_counts, "keyed.value_counts()", Last, b = false, MonotonicValue);
        mp!(v, m_keyed_value_counts_merge, "keyed(a).merge_unordered(keyed(b)).value_counts()", Last, b = true, MonotonicValue);
        mp!(v, m_keyed_fold_monotone, "keyed.fold(sum, monotone)", Last, b = false, MonotonicValue);
        mp!(v, m_keyed_fold_plain, "keyed.fold(non-monotone)", Last, b = false, MonotonicKeys);
        mp!(v, m_keyed_value_counts_map, "keyed.value_counts().map(decreasing)", Last, b = false, MonotonicKeys);
        mp!(v, m_keyed_first, "keyed.first() [snapshots]", Last, b = false, BoundedValue);
        mp!(v, m_keyed_first_map_filter, "keyed.first().map.filter [snapshots]", Last, b = false, BoundedValue);
        mp!(v, m_keyed_fold_early_stop, "keyed.fold_early_stop [snapshots]", Last, b = false, BoundedValue);
        mp!(v, m_keyed_first_entries, "keyed.first().entries()", Multiset, b = false, BoundedValueEntries);
    v
}
