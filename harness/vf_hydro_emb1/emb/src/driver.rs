//! Schedule representation and the tick-owning driver.
//!
//! The driver OWNS tick boundaries: for each tick of a schedule it pushes that tick's items into
//! the embedded input channels (in arrival order) and calls `run_tick_sync()` exactly once; the
//! trailing empty ticks are further `run_tick_sync()` calls without input; finally
//! `run_available_sync()` lets the dataflow reach quiescence the way the production run loop does
//! (it always runs one more tick and continues while the dataflow itself asks for another one).
use std::cell::RefCell;
use std::rc::Rc;

use dfir_rs::scheduled::context::{Dfir, TickClosure};
use vf_explore::{Value, json};

pub type E = (i32, i32);

/// One execution schedule: which items arrive (on which input: 0 = `a`, 1 = `b`) in which tick.
#[derive(Clone, Debug, PartialEq, Eq, Hash, PartialOrd, Ord)]
pub struct Sched {
    pub s: i32,
    pub ticks: Vec<Vec<(u8, E)>>,
    pub trailing: u8,
}

impl Sched {
    pub fn to_json(&self) -> Value {
        json!({
            "s": self.s,
            "ticks": self.ticks.iter().map(|t| t.iter().map(|(w, e)| json!([w, e.0, e.1])).collect::<Vec<_>>()).collect::<Vec<_>>(),
            "trailing": self.trailing,
        })
    }
    pub fn from_json(v: &Value) -> Sched {
        Sched {
            s: v["s"].as_i64().unwrap() as i32,
            ticks: v["ticks"]
                .as_array()
                .unwrap()
                .iter()
                .map(|t| {
                    t.as_array()
                        .unwrap()
                        .iter()
                        .map(|x| (x[0].as_u64().unwrap() as u8, (x[1].as_i64().unwrap() as i32, x[2].as_i64().unwrap() as i32)))
                        .collect()
                })
                .collect(),
            trailing: v["trailing"].as_u64().unwrap() as u8,
        }
    }
    /// Canonical form: within one tick only the per-input order matters (the two channels are
    /// independent), so items of `a` are listed before items of `b`.
    pub fn canonical(mut self) -> Sched {
        for t in &mut self.ticks {
            t.sort_by_key(|(w, _)| *w); // stable: keeps per-input order
        }
        self
    }
    pub fn input_a(&self) -> Vec<E> {
        self.ticks.iter().flatten().filter(|(w, _)| *w == 0).map(|(_, e)| *e).collect()
    }
    pub fn input_b(&self) -> Vec<E> {
        self.ticks.iter().flatten().filter(|(w, _)| *w == 1).map(|(_, e)| *e).collect()
    }
}

/// Raw observation of one execution.
#[derive(Clone, Debug, PartialEq, Eq, Hash)]
pub struct Obs {
    /// Everything the `out` callback received, in order.
    pub items: Vec<Vec<i64>>,
    /// `items.len()` after each explicitly driven tick (schedule ticks, then trailing ticks).
    pub marks: Vec<usize>,
    /// `items.len()` before the final `run_available_sync()`.
    pub pre_settle: usize,
}

pub type Buf = Rc<RefCell<Vec<Vec<i64>>>>;

pub fn drive<T: TickClosure>(
    df: &mut Dfir<T>,
    sched: &Sched,
    send_a: impl Fn(E),
    send_b: impl Fn(E),
    buf: &Buf,
) -> (Vec<usize>, usize) {
    let mut marks = Vec::with_capacity(sched.ticks.len() + sched.trailing as usize);
    for tick in &sched.ticks {
        for (w, e) in tick {
            if *w == 0 { send_a(*e) } else { send_b(*e) }
        }
        df.run_tick_sync();
        marks.push(buf.borrow().len());
    }
    for _ in 0..sched.trailing {
        df.run_tick_sync();
        marks.push(buf.borrow().len());
    }
    let pre = buf.borrow().len();
    df.run_available_sync();
    (marks, pre)
}

/// Instantiates the generated module `$m` (function `run(s, a, b, &mut outputs)`) and yields a
/// plain `fn(&Sched) -> Obs`. The `Dfir` is `!Send` and is built inside the calling worker.
#[macro_export]
macro_rules! exec_prog {
    ($m:ident) => {{
        fn exec(sched: &$crate::driver::Sched) -> $crate::driver::Obs {
            let buf: $crate::driver::Buf = Default::default();
            let (marks, pre) = {
                let b2 = buf.clone();
                let mut outputs = $crate::programs::$m::run::EmbeddedOutputs {
                    out: move |v: Vec<i64>| b2.borrow_mut().push(v),
                };
                let (atx, arx) = dfir_rs::util::unbounded_channel::<$crate::driver::E>();
                let (btx, brx) = dfir_rs::util::unbounded_channel::<$crate::driver::E>();
                let mut df = $crate::programs::$m::run(sched.s, arx, brx, &mut outputs);
                $crate::driver::drive(
                    &mut df,
                    sched,
                    |e| atx.send(e).unwrap(),
                    |e| btx.send(e).unwrap(),
                    &buf,
                )
            };
            let items = std::mem::take(&mut *buf.borrow_mut());
            $crate::driver::Obs { items, marks, pre_settle: pre }
        }
        exec as fn(&$crate::driver::Sched) -> $crate::driver::Obs
    }};
}
