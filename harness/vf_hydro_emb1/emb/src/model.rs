//! Program table entry, canonical observations, schedule enumeration.
use std::collections::{BTreeMap, BTreeSet};

use vf_explore::{Value, combi, json};

use crate::driver::{E, Obs, Sched};
use crate::refsem::RefOut;

#[derive(Clone, Copy, Debug, PartialEq, Eq)]
pub enum OutKind {
    /// TotalOrder / ExactlyOnce stream: the sequence of emitted elements.
    Seq,
    /// NoOrder stream: the multiset of emitted elements.
    Multiset,
    /// AtLeastOnce stream: the set of emitted elements.
    Set,
    /// Singleton / optional / keyed singleton exported as one snapshot per tick: the last snapshot.
    Last,
    /// Keyed stream with per-key order (elements are `[key, value..]`): per-key sequences.
    KeyedSeq,
}

pub type RefFn = fn(&[E], &[E], i32) -> RefOut;




#[allow(dead_code)]
pub struct Prog {
    pub name: &'static str,
    pub desc: &'static str,
    pub exec: fn(&Sched) -> Obs,
    pub out: OutKind,
    pub uses_b: bool,
    pub uses_s: bool,
    pub depth: u8,
    /// Output is keyed (per-key projection independence applies).
    pub keyed_out: bool,
    pub reference: Option<RefFn>,
}

#[derive(Clone, Debug, PartialEq, Eq, Hash, PartialOrd, Ord)]
pub enum Final {
    Seq(Vec<Vec<i64>>),
    Bag(Vec<Vec<i64>>),
    Last(Option<Vec<i64>>),
    Keyed(BTreeMap<i64, Vec<Vec<i64>>>),
    Panic(String),
}

impl Final {
    pub fn to_json(&self) -> Value {
        match self {
            Final::Seq(v) => json!({"sequence": v}),
            Final::Bag(v) => json!({"multiset": v}),
            Final::Last(v) => json!({"last": v}),
            Final::Keyed(m) => json!({"per_key": m.iter().map(|(k, v)| json!([k, v])).collect::<Vec<_>>()}),
            Final::Panic(s) => json!({"panic": s}),
        }
    }
}

pub fn finalize(out: OutKind, obs: &Obs) -> Final {
    match out {
        OutKind::Seq => Final::Seq(obs.items.clone()),
        OutKind::Multiset => {
            let mut v = obs.items.clone();
            v.sort();
            Final::Bag(v)
        }
        OutKind::Set => {
            let mut v = obs.items.clone();
            v.sort();
            v.dedup();
            Final::Bag(v)
        }
        OutKind::Last => Final::Last(obs.items.last().cloned()),
        OutKind::KeyedSeq => {
            let mut m: BTreeMap<i64, Vec<Vec<i64>>> = BTreeMap::new();
            for it in &obs.items {
                m.entry(it[0]).or_default().push(it[1..].to_vec());
            }
            Final::Keyed(m)
        }
    }
}

pub fn enc_e(e: &E) -> Vec<i64> {
    vec![e.0 as i64, e.1 as i64]
}

pub fn ref_final(out: OutKind, r: RefOut) -> Final {
    match (out, r) {
        (OutKind::Seq, RefOut::Stream(v)) => Final::Seq(v.iter().map(enc_e).collect()),
        (OutKind::Multiset, RefOut::Stream(v)) => {
            let mut v: Vec<_> = v.iter().map(enc_e).collect();
            v.sort();
            Final::Bag(v)
        }
        (OutKind::Set, RefOut::Stream(v)) => {
            let mut v: Vec<_> = v.iter().map(enc_e).collect();
            v.sort();
            v.dedup();
            Final::Bag(v)
        }
        (OutKind::KeyedSeq, RefOut::Stream(v)) => {
            let mut m: BTreeMap<i64, Vec<Vec<i64>>> = BTreeMap::new();
            for (k, x) in v {
                m.entry(k as i64).or_default().push(vec![x as i64]);
            }
            Final::Keyed(m)
        }
        (OutKind::Last, RefOut::Value(v)) => Final::Last(Some(v)),
        (o, _) => panic!("reference kind does not match output kind {o:?}"),
    }
}

/// Run one schedule, judging a panic of the subject as an observation.
pub fn run(p: &Prog, s: &Sched) -> (Final, Option<Obs>) {
    match vf_explore::catch(|| (p.exec)(s)) {
        Ok(obs) => (finalize(p.out, &obs), Some(obs)),
        Err(msg) => (Final::Panic(msg), None),
    }
}

/// Every way to split the arrivals of `a` and `b` into ticks: all interleavings of the two
/// arrival sequences x all cuts of the interleaved sequence into non-empty ticks (2^(n-1)),
/// reduced to canonical form (see `Sched::canonical`) and de-duplicated, x 0..=max_trailing
/// trailing empty ticks.
pub fn schedules(a: &[E], b: &[E], s: i32, max_trailing: u8) -> Vec<Sched> {
    let mut set: BTreeSet<Vec<Vec<(u8, E)>>> = BTreeSet::new();
    for il in combi::interleavings(a, b) {
        let seq: Vec<(u8, E)> = il.into_iter().map(|(w, e)| (w as u8, e)).collect();
        for cut in combi::cuts(&seq) {
            set.insert(Sched { s, ticks: cut, trailing: 0 }.canonical().ticks);
        }
    }
    let mut out = vec![];
    for ticks in set {
        for trailing in 0..=max_trailing {
            out.push(Sched { s, ticks: ticks.clone(), trailing });
        }
    }
    out
}

pub fn fmt_input(a: &[E], b: &[E], s: i32, uses_b: bool, uses_s: bool) -> String {
    let mut o = format!("a={a:?}");
    if uses_b {
        o += &format!(";b={b:?}");
    }
    if uses_s {
        o += &format!(";s={s}");
    }
    o.replace(' ', "")
}
