//! C29 — ordered and keyed streams keep their promised order.
use std::collections::BTreeMap;

use vf_explore::{Report, Stats, json, ncpu, par_map};

use crate::c28::{check_input, machinery};
use crate::driver::{E, Obs, Sched};
use crate::hand_table::KProg;
use crate::model::*;

/// All arrival sequences over keys {0,1} with at most `m` items per key: this is exactly "every
/// cross-key interleaving of every pair of per-key subsequences of length <= m".
pub fn keyed_inputs(m: usize, vals: &[i32]) -> Vec<Vec<E>> {
    fn go(m: usize, vals: &[i32], cur: &mut Vec<E>, n0: usize, n1: usize, out: &mut Vec<Vec<E>>) {
        out.push(cur.clone());
        for k in 0..2 {
            if (k == 0 && n0 == m) || (k == 1 && n1 == m) {
                continue;
            }
            for v in vals {
                cur.push((k, *v));
                go(m, vals, cur, n0 + (k == 0) as usize, n1 + (k == 1) as usize, out);
                cur.pop();
            }
        }
    }
    let mut out = vec![];
    go(m, vals, &mut vec![], 0, 0, &mut out);
    out.sort_by_key(|s| s.len());
    out
}

/// Per-key view of an observation of a keyed output.
pub fn per_key(out: OutKind, obs: &Obs) -> BTreeMap<i64, Vec<Vec<i64>>> {
    let mut m: BTreeMap<i64, Vec<Vec<i64>>> = BTreeMap::new();
    match out {
        OutKind::KeyedSeq => {
            for it in &obs.items {
                m.entry(it[0]).or_default().push(it[1..].to_vec());
            }
        }
        OutKind::Multiset | OutKind::Set => {
            for it in &obs.items {
                m.entry(it[0]).or_default().push(it[1..].to_vec());
            }
            for v in m.values_mut() {
                v.sort();
                if out == OutKind::Set {
                    v.dedup();
                }
            }
        }
        OutKind::Last => {
            // last snapshot = encoded sorted Vec<(key, value)>: [-2000-n, k, v.., k, v..]
            if let Some(last) = obs.items.last() {
                let n = (-2000 - last[0]) as usize;
                if n > 0 {
                    let w = (last.len() - 1) / n;
                    for c in last[1..].chunks(w) {
                        m.entry(c[0]).or_default().push(c[1..].to_vec());
                    }
                }
            }
        }
        OutKind::Seq => panic!("not a keyed output"),
    }
    m
}

fn project(a: &[E], k: i32) -> Vec<E> {
    a.iter().copied().filter(|e| e.0 == k).collect()
}

/// Keyed program on one input: every schedule's per-key result must equal the per-key reference
/// computed from that key's value subsequence alone, and must equal what the REAL program yields
/// when run on that key's subsequence alone (projection independence).
fn check_keyed_input(kp: &KProg, a: &[E], s: i32, scheds: &[Sched], st: &mut Stats) -> bool {
    let p = &kp.prog;
    let keys: Vec<i32> = {
        let mut k: Vec<i32> = a.iter().map(|e| e.0).collect();
        k.sort();
        k.dedup();
        k
    };
    let mut expect: BTreeMap<i64, Vec<Vec<i64>>> = BTreeMap::new();
    for k in &keys {
        let vals: Vec<i32> = a.iter().filter(|e| e.0 == *k).map(|e| e.1).collect();
        let mut r = (kp.kref)(*k, &vals, s);
        if matches!(p.out, OutKind::Multiset | OutKind::Set) {
            r.sort();
        }
        if !r.is_empty() {
            expect.insert(*k as i64, r);
        }
    }
    // projected runs of the real program (one tick, no trailing tick)
    let mut projected: BTreeMap<i64, Vec<Vec<i64>>> = BTreeMap::new();
    if keys.len() > 1 {
        for k in &keys {
            let pa = project(a, *k);
            let sc = Sched { s, ticks: vec![pa.iter().map(|e| (0u8, *e)).collect()], trailing: 0 };
            match vf_explore::catch(|| (p.exec)(&sc)) {
                Ok(o) => {
                    st.eval();
                    if let Some(v) = per_key(p.out, &o).remove(&(*k as i64)) {
                        projected.insert(*k as i64, v);
                    }
                }
                Err(msg) => {
                    st.violation(
                        format!("C29:{}:panic", p.name),
                        format!("program `{}` panicked on {:?}: {msg}", p.desc, pa),
                        json!({"kind": "keyed", "program": p.name, "schedules": [sc.to_json()]}),
                    );
                    return false;
                }
            }
        }
    }
    let input = fmt_input(a, &[], s, false, p.uses_s);
    for sc in scheds {
        let obs = match vf_explore::catch(|| (p.exec)(sc)) {
            Ok(o) => o,
            Err(msg) => {
                st.violation(
                    format!("C29:{}:panic", p.name),
                    format!("program `{}` panicked on {input} under {}: {msg}", p.desc, sc.to_json()),
                    json!({"kind": "keyed", "program": p.name, "schedules": [sc.to_json()]}),
                );
                return false;
            }
        };
        st.eval();
        let got = per_key(p.out, &obs);
        st.outcome(&(p.name, &got));
        if got != expect {
            let again = per_key(p.out, &(p.exec)(sc));
            if again != got {
                machinery(&format!("{}: non-reproducing result on {:?}", p.name, sc));
            }
            st.violation(
                format!("C29:{}:per-key-reference", p.name),
                format!("keyed program `{}` on input {input}: schedule {} yields per-key {:?} but the per-key reference is {:?}",
                    p.desc, sc.to_json(), got, expect),
                json!({"kind": "keyed", "program": p.name, "schedules": [sc.to_json()]}),
            );
            return false;
        }
        if keys.len() > 1 && got != projected {
            st.violation(
                format!("C29:{}:projection", p.name),
                format!("keyed program `{}` on input {input}: schedule {} yields per-key {:?} but running each key's subsequence alone yields {:?}",
                    p.desc, sc.to_json(), got, projected),
                json!({"kind": "keyed", "program": p.name, "schedules": [sc.to_json()]}),
            );
            return false;
        }
    }
    if scheds.len() > 1 && keys.len() > 1 {
        st.nontrivial(&(p.name, a, s));
    }
    true
}

pub fn replay_keyed(kp: &KProg, sc: &Sched) -> bool {
    let a = sc.input_a();
    let mut st = Stats::new();
    let ok = check_keyed_input(kp, &a, sc.s, std::slice::from_ref(sc), &mut st);
    for v in &st.violations {
        println!("  {}", v.what);
    }
    ok
}

pub fn run_c29(rep: &mut Report, ordered: &[Prog], keyed: &[KProg]) {
    let thorough = rep.thorough();
    rep.rule = "case = (program, arrival sequence over keys {0,1}); all sequences with <= m items per key are enumerated \
                (= all cross-key interleavings of all per-key subsequences), each under all cuts into ticks x 0..2 \
                trailing empty ticks; non-trivial iff >= 2 schedules (and, for keyed programs, both keys present)"
        .into();
    rep.explanation = "(1) every program of the C28 family whose output is typed TotalOrder must emit exactly the reference \
                       sequence under every schedule; (2) keyed operators (map/filter/scan/enumerate/limit/fold/reduce/first/...) \
                       must emit, per key, exactly the reference computed from that key's subsequence, identically for every \
                       schedule and cross-key interleaving, and identical to running the real program on that key's subsequence alone"
        .into();
    rep.assume("keyed streams are exported through entries_partially_ordered(nondet) in the output adapter; only per-key sequences are compared");
    rep.assume("keyed merge_ordered needs a nondet! guard, so it is outside the safe family and not exercised");
    rep.assume("reference semantics: emb/src/refsem.rs and the per-key closures in emb/src/hand_table.rs");
    let configs: Vec<(usize, Vec<i32>)> = if thorough { vec![(2, vec![0, 1, 2]), (3, vec![1, 2])] } else { vec![(2, vec![0, 1, 2])] };
    rep.bound("per_key_items_and_values", json!(configs));
    rep.bound("trailing_empty_ticks", json!([0, 1, 2]));
    rep.bound("ordered_programs", ordered.len());
    rep.bound("keyed_programs", keyed.len());
    let mut inputs: Vec<Vec<E>> = vec![];
    for (m, vals) in &configs {
        inputs.extend(keyed_inputs(*m, vals));
    }
    inputs.sort();
    inputs.dedup();
    inputs.sort_by_key(|s| s.len());
    rep.bound("inputs", inputs.len());
    let svals = [1, 2];

    // (1) ordered family: shard = program
    let st = par_map(ordered.len(), ncpu().min(16), |i| {
        let p = &ordered[i];
        let mut st = Stats::new();
        'outer: for a in &inputs {
            for s in if p.uses_s { &svals[..] } else { &svals[..1] } {
                let scheds = schedules(a, &[], *s, 2);
                if !check_input("C29", p, a, &[], *s, &scheds, &mut st) {
                    break 'outer;
                }
            }
        }
        let ev = st.evaluations;
        st.sample(|| json!({"program": p.name, "term": p.desc, "executions": ev}));
        for v in &st.violations {
            println!("  violation-key: {}", v.key);
        }
        st
    });
    println!("[C29] ordered programs={} executions={} schedule-dependent raw traces={}", ordered.len(), st.evaluations, st.transitions);
    let mut st = st;
    st.transitions = 0;
    st.traces = 0;
    rep.section("totally_ordered_outputs", st);

    // (2) keyed operators: shard = program
    let st = par_map(keyed.len(), ncpu().min(16), |i| {
        let kp = &keyed[i];
        let mut st = Stats::new();
        'outer: for a in &inputs {
            for s in if kp.prog.uses_s { &svals[..] } else { &svals[..1] } {
                let scheds = schedules(a, &[], *s, 2);
                if !check_keyed_input(kp, a, *s, &scheds, &mut st) {
                    break 'outer;
                }
            }
        }
        let ev = st.evaluations;
        st.sample(|| json!({"program": kp.prog.name, "term": kp.prog.desc, "executions": ev}));
        for v in &st.violations {
            println!("  violation-key: {}", v.key);
        }
        st
    });
    println!("[C29] keyed programs={} executions={}", keyed.len(), st.evaluations);
    rep.section("keyed_operators", st);
}
