#[allow(unused)]
mod programs {
    include!(concat!(env!("OUT_DIR"), "/programs.rs"));
}

fn main() {
    println!("hello");
}
