//! Engine E1 — Hydro programs through the production "embedded" code generator, driven tick by
//! tick (C28, C29, C32, C33). See ../../GUIDE.md for the conventions.
#![allow(non_snake_case)]

#[allow(unused, non_snake_case, clippy::all)]
mod programs {
    include!(concat!(env!("OUT_DIR"), "/programs.rs"));
}
mod c28;
mod c29;
mod c32;
mod c33;
mod driver;
mod hand_table;
mod model;
mod refsem;
mod gen_table {
    use crate::driver::E;
    use crate::exec_prog;
    use crate::model::{OutKind, Prog};
    use crate::refsem::*;
    include!("gen_table.rs");
}

use model::Prog;
use vf_explore::{Report, cli, quiet_panics};

fn main() {
    let cli = cli();
    quiet_panics();
    if let Some(path) = &cli.replay {
        std::process::exit(replay(&cli.property, path));
    }
    let mut rep = Report::new(&cli.property, &cli.tier, "vf_hydro_emb1");
    match cli.property.as_str() {
        "C28" => {
            let mut progs: Vec<Prog> = gen_table::gen_table();
            progs.extend(hand_table::corpus());
            progs.extend(hand_table::keyed_plain());
            c28::run_c28(&mut rep, &progs, &hand_table::keyed());
        }
        "C29" => {
            let mut ordered: Vec<Prog> = gen_table::gen_table().into_iter().filter(|p| p.out == model::OutKind::Seq).collect();
            ordered.extend(hand_table::corpus().into_iter().filter(|p| p.out == model::OutKind::Seq && !p.uses_b));
            ordered.extend(hand_table::keyed_plain());
            c29::run_c29(&mut rep, &ordered, &hand_table::keyed());
        }
        "C32" => c32::run_c32(&mut rep, &hand_table::weak()),
        "C33" => c33::run_c33(&mut rep, &hand_table::monotone()),
        other => {
            eprintln!("vf_hydro_emb1 does not serve property {other}");
            std::process::exit(2);
        }
    }
    rep.finish();
}

/// Re-execute the case stored in a replay file through plain function calls.
fn replay(property: &str, path: &str) -> i32 {
    let txt = std::fs::read_to_string(path).expect("cannot read replay file");
    let v: vf_explore::Value = vf_explore::serde_json::from_str(&txt).expect("replay file is not JSON");
    let case = &v["case"];
    let name = case["program"].as_str().expect("case.program");
    let kind = case["kind"].as_str().unwrap_or("schedule");
    let scheds: Vec<driver::Sched> = case["schedules"].as_array().expect("case.schedules").iter().map(driver::Sched::from_json).collect();
    println!("replay property={property} program={name} kind={kind}");
    let mut all: Vec<Prog> = gen_table::gen_table();
    all.extend(hand_table::corpus());
    all.extend(hand_table::keyed_plain());
    let keyed = hand_table::keyed();
    let weak = hand_table::weak();
    let mono = hand_table::monotone();
    let p: &Prog = all
        .iter()
        .chain(keyed.iter().map(|k| &k.prog))
        .chain(weak.iter().map(|k| &k.prog))
        .chain(mono.iter().map(|k| &k.prog))
        .find(|p| p.name == name)
        .expect("unknown program");
    let mut finals = vec![];
    let wprog = weak.iter().find(|w| w.prog.name == name);
    for sc in &scheds {
        let (mut fin, obs) = model::run(p, sc);
        if let Some(wp) = wprog {
            fin = c32::final_of(wp, sc); // tick-scoped operators observe the driven tick only
        }
        println!("  schedule {}", sc.to_json());
        if let Some(o) = &obs {
            println!("    emitted {:?} tick marks {:?} (before settling: {})", o.items, o.marks, o.pre_settle);
        }
        println!("    final {}", fin.to_json());
        finals.push((fin, obs));
    }
    let violated = match kind {
        "schedule" | "weak" => finals.windows(2).any(|w| w[0].0 != w[1].0),
        "reference" => {
            let sc = &scheds[0];
            // C32 stores the DENOTED input separately (the schedule carries the physical arrival)
            let den_a = if case["denoted_a"].is_object() { driver::Sched::from_json(&case["denoted_a"]).input_a() } else { sc.input_a() };
            let exp = model::ref_final(p.out, (p.reference.expect("no reference"))(&den_a, &sc.input_b(), sc.s));
            println!("  reference {}", exp.to_json());
            finals[0].0 != exp
        }
        "keyed" => {
            let kp = keyed.iter().find(|k| k.prog.name == name).expect("not a keyed program");
            !c29::replay_keyed(kp, &scheds[0])
        }
        "monotone" => {
            let mp = mono.iter().find(|k| k.prog.name == name).expect("not a C33 program");
            match &finals[0].1 {
                Some(o) => c33::judge(mp.oblig, o).is_some(),
                None => true,
            }
        }
        other => panic!("unknown replay kind {other}"),
    };
    if violated {
        println!("replay: STILL VIOLATES");
        1
    } else {
        println!("replay: no violation");
        0
    }
}
