//! C32 — library-internal order / retry assumptions are justified.
use std::collections::BTreeSet;

use vf_explore::{Report, Stats, combi, json, ncpu, par_map};

use crate::c28::{ALPHA3, machinery};
use crate::driver::{E, Sched};
use crate::hand_table::{Vary, WProg};
use crate::model::*;

/// Base (denoted) inputs: sequences where the type keeps the order, multisets (sorted) otherwise.
fn bases(vary: Vary, n: usize) -> Vec<Vec<E>> {
    let all = combi::sequences_upto(&ALPHA3, n);
    match vary {
        Vary::Exact | Vary::AdjacentDup => all,
        Vary::AnyOrder | Vary::AnyOrderDup => all.into_iter().filter(|s| s.windows(2).all(|w| w[0] <= w[1])).collect(),
        // canonical representative: all items of key 0 first, then key 1 (per-key order kept)
        Vary::PerKeyOrder => all.into_iter().filter(|s| s.windows(2).all(|w| w[0].0 <= w[1].0)).collect(),
    }
}

fn distinct_perms(items: &[E]) -> Vec<Vec<E>> {
    // items sorted; classic distinct-permutation enumeration
    fn go(rem: &mut Vec<(E, usize)>, cur: &mut Vec<E>, total: usize, out: &mut Vec<Vec<E>>) {
        if cur.len() == total {
            out.push(cur.clone());
            return;
        }
        for i in 0..rem.len() {
            if rem[i].1 > 0 {
                rem[i].1 -= 1;
                cur.push(rem[i].0);
                go(rem, cur, total, out);
                cur.pop();
                rem[i].1 += 1;
            }
        }
    }
    let mut rem: Vec<(E, usize)> = vec![];
    for e in items {
        match rem.iter_mut().find(|r| r.0 == *e) {
            Some(r) => r.1 += 1,
            None => rem.push((*e, 1)),
        }
    }
    let mut out = vec![];
    go(&mut rem, &mut vec![], items.len(), &mut out);
    out
}

/// Every physical arrival sequence the weakened input type admits for the denoted input `base`.
pub fn variants(vary: Vary, base: &[E]) -> Vec<Vec<E>> {
    let mut set: BTreeSet<Vec<E>> = BTreeSet::new();
    match vary {
        Vary::Exact => {
            set.insert(base.to_vec());
        }
        Vary::AnyOrder => set.extend(distinct_perms(base)),
        Vary::AnyOrderDup => {
            for mask in 0..(1usize << base.len()) {
                let mut ex = vec![];
                for (i, e) in base.iter().enumerate() {
                    ex.push(*e);
                    if mask >> i & 1 == 1 {
                        ex.push(*e);
                    }
                }
                ex.sort();
                set.extend(distinct_perms(&ex));
            }
        }
        Vary::AdjacentDup => {
            for mask in 0..(1usize << base.len()) {
                let mut ex = vec![];
                for (i, e) in base.iter().enumerate() {
                    ex.push(*e);
                    if mask >> i & 1 == 1 {
                        ex.push(*e);
                    }
                }
                set.insert(ex);
            }
        }
        Vary::PerKeyOrder => {
            let k0: Vec<E> = base.iter().copied().filter(|e| e.0 == 0).collect();
            let k1: Vec<E> = base.iter().copied().filter(|e| e.0 != 0).collect();
            for il in combi::interleavings(&k0, &k1) {
                set.insert(il.into_iter().map(|(_, e)| e).collect());
            }
        }
    }
    set.into_iter().collect()
}

const B_CHOICES: [&[E]; 4] = [&[], &[(0, 9)], &[(0, 9), (1, 8)], &[(1, 8), (0, 7), (0, 9)]];

fn scheds_for(wp: &WProg, arrival: &[E], b: &[E]) -> Vec<Sched> {
    if wp.single_tick {
        let mut t: Vec<(u8, E)> = arrival.iter().map(|e| (0u8, *e)).collect();
        t.extend(b.iter().map(|e| (1u8, *e)));
        vec![Sched { s: 1, ticks: vec![t], trailing: 0 }]
    } else {
        schedules(arrival, b, 1, 2)
    }
}

pub fn final_of(wp: &WProg, sc: &Sched) -> Final {
    let p = &wp.prog;
    match vf_explore::catch(|| (p.exec)(sc)) {
        Ok(mut obs) => {
            if wp.single_tick {
                // tick-scoped operator: observe the output of the one driven tick only
                obs.items.truncate(obs.marks[0]);
            }
            finalize(p.out, &obs)
        }
        Err(m) => Final::Panic(m),
    }
}

fn check_group(wp: &WProg, base: &[E], b: &[E], st: &mut Stats) -> bool {
    let p = &wp.prog;
    let expect = p.reference.map(|r| ref_final(p.out, r(base, b, 1)));
    let mut first: Option<(Final, Sched)> = None;
    let vars = variants(wp.vary, base);
    let mut nsched = 0usize;
    for arrival in &vars {
        for sc in scheds_for(wp, arrival, b) {
            nsched += 1;
            let fin = final_of(wp, &sc);
            st.eval();
            st.outcome(&(p.name, &fin));
            let input = fmt_input(base, b, 1, p.uses_b, false);
            match &first {
                None => first = Some((fin.clone(), sc.clone())),
                Some((f0, s0)) => {
                    if &fin != f0 {
                        if final_of(wp, &sc) != fin || &final_of(wp, s0) != f0 {
                            machinery(&format!("{}: non-reproducing result", p.name));
                        }
                        st.violation(
                            format!("C32:{}:order-or-duplication", p.name),
                            format!("{} [`{}`] on denoted input {input}: physical arrival {} yields {} but admissible arrival {} yields {}",
                                wp.site, p.desc, s0.to_json(), f0.to_json(), sc.to_json(), fin.to_json()),
                            json!({"kind": "weak", "program": p.name, "schedules": [s0.to_json(), sc.to_json()]}),
                        );
                        return false;
                    }
                }
            }
            if let Some(exp) = &expect {
                if &fin != exp {
                    if final_of(wp, &sc) != fin {
                        machinery(&format!("{}: non-reproducing result", p.name));
                    }
                    st.violation(
                        format!("C32:{}:reference", p.name),
                        format!("{} [`{}`] on denoted input {input}: physical arrival {} yields {} but the expected result is {}",
                            wp.site, p.desc, sc.to_json(), fin.to_json(), exp.to_json()),
                        json!({"kind": "reference", "program": p.name, "schedules": [sc.to_json()],
                               "denoted_a": Sched { s: 1, ticks: vec![base.iter().map(|e| (0u8, *e)).collect()], trailing: 0 }.to_json()}),
                    );
                    return false;
                }
            }
        }
    }
    if vars.len() > 1 || nsched > 1 {
        st.nontrivial(&(p.name, base, b));
    }
    true
}

pub fn run_c32(rep: &mut Report, progs: &[WProg]) {
    let thorough = rep.thorough();
    let n = if thorough { 4 } else { 3 };
    rep.rule = "case = (operator program, denoted input: a multiset for NoOrder inputs / a sequence for TotalOrder inputs / \
                per-key sequences for keyed inputs); non-trivial iff it has >= 2 admissible physical executions; ALL admissible \
                arrival orders (all permutations; per-key-order-preserving interleavings for keyed; identity for TotalOrder) x ALL \
                duplications (each element 1x or 2x; anywhere for NoOrder, adjacent for TotalOrder) x all tick cuts x 0..2 trailing ticks"
        .into();
    rep.explanation = "one program per public operator that calls assume_ordering_trusted / assume_retries_trusted internally, \
                       applied to the weakest input type it accepts (built with weaken_ordering / weaken_retries); the final result \
                       must be identical for every admissible physical delivery of the same denoted input, and equal to a direct \
                       computation on the denoted input"
        .into();
    rep.assume("TotalOrder+AtLeastOnce admits only adjacent re-deliveries of an element (the reading under which `last`'s idempotence claim is meaningful)");
    rep.assume("tick-scoped operators (is_empty, repeat_with_keys) get their bounded input from .batch(nondet) and the driver delivers the whole input in one tick; only that tick's output is observed");
    rep.assume("first/last are run only on TotalOrder inputs (their signatures require IsOrdered)");
    rep.bound("max_denoted_input_len", n);
    rep.bound("alphabet", json!(ALPHA3));
    rep.bound("max_duplication", 2);
    rep.bound("programs", progs.len());
    rep.bound("sites", json!(progs.iter().map(|w| w.site).collect::<Vec<_>>()));
    let mut work: Vec<(usize, Vec<E>, Vec<E>)> = vec![];
    for (pi, wp) in progs.iter().enumerate() {
        for base in bases(wp.vary, n) {
            if wp.prog.uses_b {
                for b in B_CHOICES {
                    work.push((pi, base.clone(), b.to_vec()));
                }
            } else {
                work.push((pi, base, vec![]));
            }
        }
    }
    // big groups first for better load balance
    work.sort_by_key(|(pi, base, _)| (std::cmp::Reverse(base.len()), *pi));
    let st = par_map(work.len(), ncpu().min(16), |i| {
        let (pi, base, b) = &work[i];
        let mut st = Stats::new();
        check_group(&progs[*pi], base, b, &mut st);
        for v in &st.violations {
            println!("  violation-key: {} (denoted input {:?})", v.key, base);
        }
        if base.len() == n {
            let ev = st.evaluations;
            st.sample(|| json!({"program": progs[*pi].prog.name, "site": progs[*pi].site, "denoted_input": format!("{base:?}"), "physical_executions": ev}));
        }
        st
    });
    println!("[C32] programs={} groups={} executions={}", progs.len(), work.len(), st.evaluations);
    rep.section("operators", st);
}
