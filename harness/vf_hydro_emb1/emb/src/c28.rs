//! C28 — safe top-level Hydro code is eventually deterministic.
use vf_explore::{Report, Stats, combi, json, ncpu, par_map};

use crate::driver::{E, Sched};
use crate::model::*;

pub const ALPHA3: [E; 3] = [(0, 1), (0, 2), (1, 0)];
pub const ALPHA4: [E; 4] = [(0, 1), (0, 2), (1, 0), (1, 2)];

/// All inputs of total length <= n for a program (one or two streams, singleton values).
pub fn inputs(p: &Prog, n: usize, alpha: &[E], svals: &[i32]) -> Vec<(Vec<E>, Vec<E>, i32)> {
    let svals: &[i32] = if p.uses_s { svals } else { &svals[..1] };
    let mut out = vec![];
    for a in combi::sequences_upto(alpha, n) {
        if p.uses_b {
            for b in combi::sequences_upto(alpha, n - a.len()) {
                for s in svals {
                    out.push((a.clone(), b.clone(), *s));
                }
            }
        } else {
            for s in svals {
                out.push((a.clone(), vec![], *s));
            }
        }
    }
    out
}

/// Differential + reference oracle on one (program, input): every schedule must produce the same
/// final observation, and that observation must equal the iterator-semantics reference.
/// Returns false when a violation was recorded.
pub fn check_input(prop: &str, p: &Prog, a: &[E], b: &[E], s: i32, scheds: &[Sched], st: &mut Stats) -> bool {
    let expect = p.reference.map(|r| ref_final(p.out, r(a, b, s)));
    check_input_with(prop, p, a, b, s, scheds, expect, st)
}

/// Expected final observation of a keyed-operator program, assembled from its per-key reference.
pub fn keyed_expect(kp: &crate::hand_table::KProg, a: &[E], s: i32) -> Final {
    let mut keys: Vec<i32> = a.iter().map(|e| e.0).collect();
    keys.sort();
    keys.dedup();
    let mut per: std::collections::BTreeMap<i64, Vec<Vec<i64>>> = Default::default();
    for k in keys {
        let vals: Vec<i32> = a.iter().filter(|e| e.0 == k).map(|e| e.1).collect();
        let r = (kp.kref)(k, &vals, s);
        if !r.is_empty() {
            per.insert(k as i64, r);
        }
    }
    match kp.prog.out {
        OutKind::KeyedSeq => Final::Keyed(per),
        OutKind::Multiset | OutKind::Set => {
            let mut v: Vec<Vec<i64>> = vec![];
            for (k, els) in per {
                for e in els {
                    let mut x = vec![k];
                    x.extend(e);
                    v.push(x);
                }
            }
            v.sort();
            Final::Bag(v)
        }
        OutKind::Last => {
            let mut out = vec![-2000 - per.len() as i64];
            for (k, els) in per {
                out.push(k);
                out.extend(els[0].iter());
            }
            Final::Last(Some(out))
        }
        OutKind::Seq => unreachable!(),
    }
}

pub fn check_input_with(prop: &str, p: &Prog, a: &[E], b: &[E], s: i32, scheds: &[Sched], expect: Option<Final>, st: &mut Stats) -> bool {
    let mut base: Option<(Final, &Sched)> = None;
    let mut raw = std::collections::BTreeSet::new();
    let mut lagging = false;
    for sc in scheds {
        let (fin, obs) = run(p, sc);
        st.eval();
        if let Some(o) = &obs {
            raw.insert(vf_explore::hash_of(&(&o.items, &o.marks)));
            if p.out == OutKind::Last && o.pre_settle > 0 && o.items.get(o.pre_settle - 1) != o.items.last() {
                lagging = true;
            }
        }
        st.outcome(&(p.name, &fin));
        let input = fmt_input(a, b, s, p.uses_b, p.uses_s);
        match &base {
            None => base = Some((fin.clone(), sc)),
            Some((b0, s0)) => {
                if &fin != b0 {
                    let (again, _) = run(p, sc);
                    let (again0, _) = run(p, s0);
                    if again != fin || &again0 != b0 {
                        machinery(&format!("{}: non-reproducing result on {:?}", p.name, sc));
                    }
                    st.violation(
                        format!("{prop}:{}:schedule", p.name),
                        format!("program `{}` on input {input}: schedule {} yields {} but schedule {} yields {}",
                            p.desc, s0.to_json(), b0.to_json(), sc.to_json(), fin.to_json()),
                        json!({"kind": "schedule", "program": p.name, "schedules": [s0.to_json(), sc.to_json()]}),
                    );
                    return false;
                }
            }
        }
        if let Some(exp) = &expect {
            if &fin != exp {
                let (again, _) = run(p, sc);
                if again != fin {
                    machinery(&format!("{}: non-reproducing result on {:?}", p.name, sc));
                }
                st.violation(
                    format!("{prop}:{}:reference", p.name),
                    format!("program `{}` on input {input}: schedule {} yields {} but the iterator-semantics reference is {}",
                        p.desc, sc.to_json(), fin.to_json(), exp.to_json()),
                    json!({"kind": "reference", "program": p.name, "schedules": [sc.to_json()], "expected": exp.to_json()}),
                );
                return false;
            }
        }
    }
    if scheds.len() > 1 {
        st.nontrivial(&(p.name, a, b, s));
    }
    if raw.len() > 1 {
        st.transition(); // (program, input) whose raw per-tick emission trace depends on the schedule
    }
    if lagging {
        st.trace(); // value visible only after the settling ticks (informational)
    }
    true
}

pub fn machinery(msg: &str) -> ! {
    println!("MACHINERY-ERROR: {msg}");
    std::process::exit(2)
}

pub fn check_program(prop: &str, p: &Prog, kp: Option<&crate::hand_table::KProg>, n: usize, alpha: &[E], svals: &[i32], max_trailing: u8) -> Stats {
    let mut st = Stats::new();
    for (a, b, s) in inputs(p, n, alpha, svals) {
        let scheds = schedules(&a, &b, s, max_trailing);
        let ok = match kp {
            Some(kp) => check_input_with(prop, p, &a, &b, s, &scheds, Some(keyed_expect(kp, &a, s)), &mut st),
            None => check_input(prop, p, &a, &b, s, &scheds, &mut st),
        };
        if !ok {
            break; // first failing input of this program is the witness; stop this program
        }
    }
    let ev = st.evaluations;
    st.sample(|| json!({"program": p.name, "term": p.desc, "executions": ev}));
    for v in &st.violations {
        println!("  violation-key: {}", v.key);
    }
    st
}

pub fn run_c28(rep: &mut Report, plain: &[Prog], keyed: &[crate::hand_table::KProg]) {
    let progs: Vec<(&Prog, Option<&crate::hand_table::KProg>)> =
        plain.iter().map(|p| (p, None)).chain(keyed.iter().map(|k| (&k.prog, Some(k)))).collect();
    let thorough = rep.thorough();
    let n = if thorough { 5 } else { 4 };
    rep.rule = "case = (program, input streams a[,b], singleton s); non-trivial iff it has >= 2 distinct tick schedules; \
                every schedule (all interleavings of the arrivals x all cuts into ticks x 0..2 trailing empty ticks, \
                de-duplicated by per-tick per-input content) is executed on the code produced by generate_embedded"
        .into();
    rep.explanation = "for each program of the safe top-level family (identity, 29 depth-1 terms, the depth-2 compositions selected at build time, \
                       the hand-written corpus, one program per remaining safe public API and the keyed-operator programs) the final observation (sequence for TotalOrder streams, \
                       multiset for NoOrder streams, last per-tick snapshot for singletons/optionals/keyed singletons) \
                       must be identical across all schedules of the same input and equal to a plain-Vec iterator reference"
        .into();
    rep.assume("the output adapters (progs/src/adapt.rs) are the only nondet!() uses; they export runtime order / per-tick snapshots and the oracle reads them modulo order / last-value");
    rep.assume("quiescence is reached by Dfir::run_available_sync() after the last driven tick, as in the production run loop");
    rep.assume("plain-Vec reference semantics in emb/src/refsem.rs (hand-written, 30 small functions) is the trusted base");
    rep.bound("max_total_input_len", n);
    rep.bound("alphabet", json!(ALPHA3));
    rep.bound("alphabet_single_input_thorough", json!(ALPHA4));
    rep.bound("trailing_empty_ticks", json!([0, 1, 2]));
    rep.bound("singleton_values", json!([1, 2]));
    rep.bound("programs", progs.len());
    // heaviest programs (two inputs, singleton values) first: better load balance
    let mut order: Vec<usize> = (0..progs.len()).collect();
    order.sort_by_key(|i| (!progs[*i].0.uses_b, !progs[*i].0.uses_s));
    let st = par_map(progs.len(), ncpu().min(16), |i| {
        let (p, kp) = progs[order[i]];
        let alpha: &[E] = if thorough && !p.uses_b { &ALPHA4 } else { &ALPHA3 };
        check_program("C28", p, kp, n, alpha, &[1, 2], 2)
    });
    println!(
        "[C28] programs={} executions={} inputs_with_schedule_dependent_raw_trace={} inputs_with_value_visible_only_after_settling={}",
        progs.len(), st.evaluations, st.transitions, st.traces
    );
    let mut st = st;
    rep.bound("inputs_with_schedule_dependent_raw_trace", st.transitions);
    rep.bound("inputs_with_value_only_after_settling", st.traces);
    st.transitions = 0;
    st.traces = 0;
    rep.section("family", st);
}
