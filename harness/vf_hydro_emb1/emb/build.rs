use hydro_lang::location::Location;

macro_rules! gen_prog {
    ($out:expr, $modname:ident, $path:path) => {{
        let mut flow = hydro_lang::compile::builder::FlowBuilder::new();
        let process = flow.process::<()>();
        $path(
            process.embedded_input("a"),
            process.embedded_input("b"),
            process.embedded_singleton_input("s"),
        );
        let code = flow
            .with_process(&process, "run")
            .generate_embedded("vf_hydro_progs1");
        $out.push_str(&format!(
            "#[allow(unused_imports, unused_qualifications, missing_docs, non_snake_case, unused)]\npub mod {} {{\n{}\n}}\n",
            stringify!($modname),
            prettyplease::unparse(&code)
        ));
    }};
}

fn main() {
    println!("cargo::rerun-if-changed=build.rs");
    let out_dir = std::env::var("OUT_DIR").unwrap();
    let mut out = String::new();
    gen_prog!(out, h_map, vf_hydro_progs1::hand::h_map);
    gen_prog!(out, h_join, vf_hydro_progs1::hand::h_join);
    gen_prog!(out, h_fold, vf_hydro_progs1::hand::h_fold);
    gen_prog!(out, h_keyed_fold, vf_hydro_progs1::hand::h_keyed_fold);
    gen_prog!(out, h_cross_singleton, vf_hydro_progs1::hand::h_cross_singleton);
    gen_prog!(out, h_unordered, vf_hydro_progs1::hand::h_unordered);
    std::fs::write(format!("{out_dir}/programs.rs"), out).unwrap();
}
