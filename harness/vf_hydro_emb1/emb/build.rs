//! Instantiates every program of `vf_hydro_progs1` with embedded inputs `a`, `b` (streams of
//! `(i32, i32)`) and `s` (singleton `i32`) and runs the PRODUCTION embedded code generator
//! (`generate_embedded` = compile_internal + partition_graph + as_code). One module per program
//! is written to `$OUT_DIR/programs.rs`; each exposes `run(s, a, b, &mut run::EmbeddedOutputs)`.
use hydro_lang::location::Location;

macro_rules! gen_prog {
    ($out:expr, $modname:ident, $path:path) => {{
        let mut flow = hydro_lang::compile::builder::FlowBuilder::new();
        let process = flow.process::<()>();
        $path(
            process.embedded_input("a"),
            process.embedded_input("b"),
            process.embedded_singleton_input("s"),
        );
        let code = flow
            .with_process(&process, "run")
            .generate_embedded("vf_hydro_progs1");
        $out.push_str(&format!(
            "pub mod {} {{\n{}\n}}\n",
            stringify!($modname),
            prettyplease::unparse(&code)
        ));
    }};
}

include!("gen_build.rs");
include!("hand_build.rs");

fn main() {
    println!("cargo::rerun-if-changed=build.rs");
    println!("cargo::rerun-if-changed=gen_build.rs");
    println!("cargo::rerun-if-changed=hand_build.rs");
    let out_dir = std::env::var("OUT_DIR").unwrap();
    let mut out = String::new();
    gen_all(&mut out);
    hand_all(&mut out);
    std::fs::write(format!("{out_dir}/programs.rs"), out).unwrap();
}
