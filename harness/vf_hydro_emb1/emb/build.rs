//! Instantiates programs of `vf_hydro_progs1` with embedded inputs `a`, `b` (streams of
//! `(i32, i32)`) and `s` (singleton `i32`) and runs the PRODUCTION embedded code generator
//! (`generate_embedded` = compile_internal + partition_graph + as_code). One module per program
//! is written to `$OUT_DIR/programs.rs`; each exposes `run(s, a, b, &mut run::EmbeddedOutputs)`.
//!
//! Which programs are compiled (each costs ~1000 lines of generated Rust) is chosen by the
//! build-time environment variable `VF_EMB1_FAMILY`:
//!   unset / "core"  hand-written programs + depth<=1 + depth-2 compositions whose FIRST operator is one
//!                   of gen.py's CORE_FIRST (second operator: all)                      [default]
//!   "full"          everything (all 522 generated programs)
//!   "x,y,.."        only programs whose name contains one of the substrings (scratch/mutation runs)
//! For every compiled program `--cfg <program name>` is set; the run-time tables are guarded by it.
use hydro_lang::location::Location;

struct Select {
    mode: String,
}
impl Select {
    fn wants(&self, core: bool, name: &str) -> bool {
        match self.mode.as_str() {
            "" | "core" => core,
            "full" => true,
            list => list.split(',').any(|s| !s.is_empty() && name.contains(s)),
        }
    }
}

macro_rules! gen_prog {
    ($out:expr, $sel:expr, $core:expr, $modname:ident, $path:path) => {{
        println!("cargo::rustc-check-cfg=cfg({})", stringify!($modname));
        if $sel.wants($core, stringify!($modname)) {
            println!("cargo::rustc-cfg={}", stringify!($modname));
            let mut flow = hydro_lang::compile::builder::FlowBuilder::new();
            let process = flow.process::<()>();
            $path(
                process.embedded_input("a"),
                process.embedded_input("b"),
                process.embedded_singleton_input("s"),
            );
            let code = flow
                .with_process(&process, "run")
                .generate_embedded("vf_hydro_progs1");
            $out.push_str(&format!(
                "pub mod {} {{\n{}\n}}\n",
                stringify!($modname),
                prettyplease::unparse(&code)
            ));
        }
    }};
}

include!("gen_build.rs");
include!("hand_build.rs");

fn main() {
    println!("cargo::rerun-if-changed=build.rs");
    println!("cargo::rerun-if-changed=gen_build.rs");
    println!("cargo::rerun-if-changed=hand_build.rs");
    println!("cargo::rerun-if-env-changed=VF_EMB1_FAMILY");
    let sel = Select { mode: std::env::var("VF_EMB1_FAMILY").unwrap_or_default() };
    let out_dir = std::env::var("OUT_DIR").unwrap();
    let mut out = String::new();
    gen_all(&mut out, &sel);
    hand_all(&mut out, &sel);
    std::fs::write(format!("{out_dir}/programs.rs"), out).unwrap();
}
