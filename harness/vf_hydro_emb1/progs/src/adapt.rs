//! Shared types and the OUTPUT ADAPTERS. These adapters are the only place where the program
//! family uses `nondet!()`: an unordered stream is handed to `embedded_output` in whatever order
//! the runtime produces it (the harness compares it as a multiset), and a singleton / optional /
//! keyed singleton is exported as one snapshot per tick (the harness reads the last one — "the
//! final value" — and, for C33, the whole snapshot history).
use hydro_lang::live_collections::keyed_singleton::KeyedSingletonBound;
use hydro_lang::live_collections::singleton::SingletonBound;
use hydro_lang::live_collections::boundedness::Boundedness;
use hydro_lang::live_collections::stream::{ExactlyOnce, Ordering, Retries, TotalOrder};
use hydro_lang::prelude::*;

use crate::enc::Enc;

pub type P<'a> = Process<'a, ()>;
/// The two embedded stream inputs.
pub type SP<'a> = Stream<(i32, i32), P<'a>, Unbounded, TotalOrder, ExactlyOnce>;
/// The embedded singleton input.
pub type SG<'a> = Singleton<i32, P<'a>, Bounded>;

/// Totally ordered, exactly-once stream: exported as is (sequence observation).
pub fn out_total<'a, T: Enc + 'a>(x: Stream<T, P<'a>, Unbounded, TotalOrder, ExactlyOnce>) {
    x.map(q!(|v| crate::enc::enc(v))).embedded_output("out");
}

/// Unordered / at-least-once stream: exported in runtime order (multiset / set observation).
pub fn out_unordered<'a, T: Enc + 'a, O: Ordering, R: Retries>(x: Stream<T, P<'a>, Unbounded, O, R>) {
    x.map(q!(|v| crate::enc::enc(v)))
        .assume_ordering::<TotalOrder>(nondet!(/** output adapter: compared as a multiset */))
        .assume_retries::<ExactlyOnce>(nondet!(/** output adapter: compared as a multiset / set */))
        .embedded_output("out");
}

/// Singleton: one snapshot per tick.
pub fn out_singleton<'a, T: Enc + 'a, B: SingletonBound>(p: &P<'a>, x: Singleton<T, P<'a>, B>) {
    let tick = p.tick();
    x.snapshot(&tick, nondet!(/** output adapter: snapshot per tick, last value wins */))
        .all_ticks()
        .map(q!(|v| crate::enc::enc(v)))
        .embedded_output("out");
}

/// Optional: one snapshot (`Option`) per tick.
pub fn out_optional<'a, T: Enc + Clone + 'a, B: Boundedness>(p: &P<'a>, x: Optional<T, P<'a>, B>) {
    let tick = p.tick();
    x.into_singleton()
        .snapshot(&tick, nondet!(/** output adapter: snapshot per tick, last value wins */))
        .all_ticks()
        .map(q!(|v| crate::enc::enc(v)))
        .embedded_output("out");
}

/// Keyed singleton with changing values: one snapshot (sorted entry list) per tick.
pub fn out_keyed_singleton<'a, V: Enc + Ord + 'a, B: KeyedSingletonBound<ValueBound = Unbounded>>(
    p: &P<'a>,
    x: KeyedSingleton<i32, V, P<'a>, B>,
) {
    let tick = p.tick();
    x.snapshot(&tick, nondet!(/** output adapter: snapshot per tick, last value wins */))
        .entries()
        .fold(
            q!(|| Vec::new()),
            q!(
                |acc, kv| {
                    acc.push(kv);
                    acc.sort();
                },
                commutative = manual_proof!(/** sorted insertion */)
            ),
        )
        .all_ticks()
        .map(q!(|v| crate::enc::enc(v)))
        .embedded_output("out");
}

/// Keyed singleton with immutable values: its safe `entries()` stream (each entry once).
pub fn out_keyed_bounded_value<'a, V: Enc + 'a, B: KeyedSingletonBound<ValueBound = Bounded, UnderlyingBound = Unbounded>>(
    _p: &P<'a>,
    x: KeyedSingleton<i32, V, P<'a>, B>,
) {
    out_unordered(x.entries());
}

/// Keyed stream with per-key total order: exported through `entries_partially_ordered` (keys are
/// interleaved arbitrarily, each key's elements stay in order); observed as per-key sequences.
pub fn out_keyed_total<'a, V: Enc + 'a>(x: KeyedStream<i32, V, P<'a>, Unbounded, TotalOrder, ExactlyOnce>) {
    x.entries_partially_ordered(nondet!(/** output adapter: compared per key */))
        .map(q!(|v| crate::enc::enc(v)))
        .embedded_output("out");
}
