//! Hand-written programs: corpus (C28), keyed / ordered operators (C29), operators with
//! library-internal order / retry assumptions applied to their weakest input type (C32), and
//! producers of monotone / bounded-value collections (C33).
//!
//! Every program has the uniform shape `fn(a, b, s)` and exports exactly one `out`.
//! `nondet!()` appears only (1) in the output adapters of `adapt.rs` and (2) for tick-scoped
//! operators of C32, in the INPUT adapter `.batch(&tick, nondet!(..))` (the driver then delivers
//! the whole input in a single tick, so the batch is the whole input).
#![allow(clippy::all, unused_variables)]
use hydro_lang::live_collections::keyed_singleton::{BoundedValue, MonotonicKeys, MonotonicValue};
use hydro_lang::live_collections::singleton::Monotonic;
use hydro_lang::live_collections::stream::{AtLeastOnce, NoOrder};
use hydro_lang::prelude::*;

use crate::adapt::*;

// ------------------------------------------------------------------------------------------
// Corpus for C28 (beyond the generated family): singleton / optional / keyed-singleton algebra,
// bounded sources, and the hydro_test `local` programs that fit embedded I/O.
// ------------------------------------------------------------------------------------------

/// hydro_test::local::singleton_input::prefix_names, over integers.
pub fn c_prefix<'a>(a: SP<'a>, b: SP<'a>, s: SG<'a>) {
    out_total(a.cross_singleton(s).map(q!(|((k, v), s)| (k, v + 100 * s))));
}

/// hydro_test::local::capitalize, over integers.
pub fn c_capitalize<'a>(a: SP<'a>, b: SP<'a>, s: SG<'a>) {
    out_total(a.map(q!(|(k, v)| (k, v * 7))));
}

/// Bounded singleton turned into a stream and chained in front of the input.
pub fn c_into_stream_chain<'a>(a: SP<'a>, b: SP<'a>, s: SG<'a>) {
    out_total(s.into_stream().map(q!(|s| (9, s))).chain(a));
}

/// `sort` of a bounded source, chained in front of the input.
pub fn c_sort_chain<'a>(a: SP<'a>, b: SP<'a>, s: SG<'a>) {
    let p = a.location().clone();
    out_total(p.source_iter(q!(vec![(1, 2), (0, 5), (0, 1)])).sort().chain(a));
}

pub fn c_collect_vec<'a>(a: SP<'a>, b: SP<'a>, s: SG<'a>) {
    let p = a.location().clone();
    out_singleton(&p, a.collect_vec());
}

pub fn c_limit<'a>(a: SP<'a>, b: SP<'a>, s: SG<'a>) {
    out_total(a.limit(q!(2)));
}

/// Fold / reduce of a BOUNDED top-level source (compiled to fold_no_replay / reduce_no_replay),
/// turned back into a stream: the value must appear exactly once, in front of the input.
pub fn c_bounded_fold_stream<'a>(a: SP<'a>, b: SP<'a>, s: SG<'a>) {
    let p = a.location().clone();
    let f = p.source_iter(q!(vec![5, 6])).fold(q!(|| 0i32), q!(|acc, v| *acc += v));
    out_total(f.into_stream().map(q!(|f| (9, f))).chain(a));
}
pub fn c_bounded_reduce_stream<'a>(a: SP<'a>, b: SP<'a>, s: SG<'a>) {
    let p = a.location().clone();
    let f = p.source_iter(q!(vec![5, 6])).reduce(q!(|acc, v| *acc += v));
    out_total(f.into_stream().map(q!(|f| (9, f))).chain(a));
}

/// Two bounded singletons zipped (embedded singleton x fold of a bounded source), crossed with the input.
pub fn c_zip_count_fold<'a>(a: SP<'a>, b: SP<'a>, s: SG<'a>) {
    let p = a.location().clone();
    let f = p.source_iter(q!(vec![5, 6])).fold(q!(|| 0i32), q!(|acc, v| *acc += v));
    out_total(a.cross_singleton(s.zip(f)).map(q!(|((k, v), (s, f))| (k, v + 100 * s + 1000 * f))));
}

/// Optional algebra: `max.or(min of the other input)` and `unwrap_or`.
pub fn c_optional_or<'a>(a: SP<'a>, b: SP<'a>, s: SG<'a>) {
    let p = a.location().clone();
    out_optional(&p, a.filter(q!(|&(_k, v)| v == 2)).max().or(b.min()));
}

pub fn c_singleton_filter<'a>(a: SP<'a>, b: SP<'a>, s: SG<'a>) {
    let p = a.location().clone();
    out_optional(&p, a.count().ignore_monotonic().filter(q!(|c| *c % 2 == 1)));
}

pub fn c_is_some_and<'a>(a: SP<'a>, b: SP<'a>, s: SG<'a>) {
    let p = a.location().clone();
    out_singleton(&p, a.first().is_some());
}

/// Key count of a keyed singleton with changing values (library path: snapshot + latest).
pub fn c_key_count<'a>(a: SP<'a>, b: SP<'a>, s: SG<'a>) {
    let p = a.location().clone();
    out_singleton(
        &p,
        a.into_keyed().fold(q!(|| 0i32), q!(|acc, v| *acc = acc.wrapping_mul(3).wrapping_add(v))).key_count(),
    );
}

pub fn c_key_count_bounded_value<'a>(a: SP<'a>, b: SP<'a>, s: SG<'a>) {
    let p = a.location().clone();
    out_singleton(&p, a.into_keyed().first().key_count());
}

/// Keyed join of the two inputs.
pub fn c_join_keyed<'a>(a: SP<'a>, b: SP<'a>, s: SG<'a>) {
    out_unordered(
        a.into_keyed().join_keyed_stream(b.into_keyed()).entries().map(q!(|(k, (v1, v2))| (k, v1 * 10 + v2))),
    );
}

/// Keyed merge of the two inputs folded per key with a commutative function.
pub fn c_keyed_merge_fold<'a>(a: SP<'a>, b: SP<'a>, s: SG<'a>) {
    let p = a.location().clone();
    out_keyed_singleton(
        &p,
        a.into_keyed()
            .merge_unordered(b.into_keyed())
            .fold(q!(|| 0i32), q!(|acc, v| *acc += v, commutative = manual_proof!(/** integer sum */))),
    );
}

/// Join against a bounded build side keeps the probe order.
pub fn c_join_bounded<'a>(a: SP<'a>, b: SP<'a>, s: SG<'a>) {
    let p = a.location().clone();
    out_total(a.join(p.source_iter(q!(vec![(0, 5), (1, 6), (0, 7)]))).map(q!(|(k, (v1, v2))| (k, v1 * 10 + v2))));
}

/// get_max_key of a bounded-value keyed singleton.
pub fn c_get_max_key<'a>(a: SP<'a>, b: SP<'a>, s: SG<'a>) {
    let p = a.location().clone();
    out_optional(&p, a.into_keyed().first().get_max_key());
}

// ------------------------------------------------------------------------------------------
// C29: keyed operators (per-key order, projection independence). Output elements are
// `(key, value)`; the harness groups by key.
// ------------------------------------------------------------------------------------------

pub fn k_id<'a>(a: SP<'a>, b: SP<'a>, s: SG<'a>) {
    out_keyed_total(a.into_keyed());
}
pub fn k_map<'a>(a: SP<'a>, b: SP<'a>, s: SG<'a>) {
    out_keyed_total(a.into_keyed().map(q!(|v| v * 2 + 1)));
}
pub fn k_map_with_key<'a>(a: SP<'a>, b: SP<'a>, s: SG<'a>) {
    out_keyed_total(a.into_keyed().map_with_key(q!(|(k, v)| v + 10 * k)));
}
pub fn k_filter<'a>(a: SP<'a>, b: SP<'a>, s: SG<'a>) {
    out_keyed_total(a.into_keyed().filter(q!(|v| *v != 1)));
}
pub fn k_filter_map<'a>(a: SP<'a>, b: SP<'a>, s: SG<'a>) {
    out_keyed_total(a.into_keyed().filter_map(q!(|v| if v > 0 { Some(v - 1) } else { None })));
}
pub fn k_flat_map_ordered<'a>(a: SP<'a>, b: SP<'a>, s: SG<'a>) {
    out_keyed_total(a.into_keyed().flat_map_ordered(q!(|v| vec![v, v + 10])));
}
pub fn k_inspect<'a>(a: SP<'a>, b: SP<'a>, s: SG<'a>) {
    out_keyed_total(a.into_keyed().inspect(q!(|_v| {})));
}
pub fn k_scan<'a>(a: SP<'a>, b: SP<'a>, s: SG<'a>) {
    out_keyed_total(a.into_keyed().scan(
        q!(|| 0i32),
        q!(|acc, v| {
            *acc = acc.wrapping_mul(3).wrapping_add(v);
            Some(*acc)
        }),
    ));
}
pub fn k_enumerate<'a>(a: SP<'a>, b: SP<'a>, s: SG<'a>) {
    out_keyed_total(a.into_keyed().enumerate().map(q!(|(i, v)| v * 10 + i as i32)));
}
pub fn k_limit<'a>(a: SP<'a>, b: SP<'a>, s: SG<'a>) {
    out_keyed_total(a.into_keyed().limit(q!(2)));
}
pub fn k_cross_singleton<'a>(a: SP<'a>, b: SP<'a>, s: SG<'a>) {
    out_keyed_total(a.into_keyed().cross_singleton(s).map(q!(|(v, s)| v + 100 * s)));
}
pub fn k_filter_key_not_in<'a>(a: SP<'a>, b: SP<'a>, s: SG<'a>) {
    let p = a.location().clone();
    out_keyed_total(a.into_keyed().filter_key_not_in(p.source_iter(q!(vec![1]))));
}
pub fn k_join_keyed_singleton<'a>(a: SP<'a>, b: SP<'a>, s: SG<'a>) {
    let p = a.location().clone();
    let ks = p.source_iter(q!(vec![(0, 5), (1, 6)])).into_keyed().first();
    out_keyed_total(a.into_keyed().join_keyed_singleton(ks).map(q!(|(v, w)| v * 10 + w)));
}
pub fn k_fold<'a>(a: SP<'a>, b: SP<'a>, s: SG<'a>) {
    let p = a.location().clone();
    out_keyed_singleton(&p, a.into_keyed().fold(q!(|| 0i32), q!(|acc, v| *acc = acc.wrapping_mul(3).wrapping_add(v))));
}
pub fn k_reduce<'a>(a: SP<'a>, b: SP<'a>, s: SG<'a>) {
    let p = a.location().clone();
    out_keyed_singleton(&p, a.into_keyed().reduce(q!(|acc, v| *acc = acc.wrapping_mul(3).wrapping_add(v))));
}
pub fn k_value_counts<'a>(a: SP<'a>, b: SP<'a>, s: SG<'a>) {
    let p = a.location().clone();
    out_keyed_singleton(&p, a.into_keyed().value_counts());
}
pub fn k_first<'a>(a: SP<'a>, b: SP<'a>, s: SG<'a>) {
    let p = a.location().clone();
    out_keyed_bounded_value(&p, a.into_keyed().first());
}
pub fn k_fold_early_stop<'a>(a: SP<'a>, b: SP<'a>, s: SG<'a>) {
    let p = a.location().clone();
    out_keyed_bounded_value(
        &p,
        a.into_keyed().fold_early_stop(
            q!(|| 0i32),
            q!(|acc, v| {
                *acc = acc.wrapping_mul(3).wrapping_add(v);
                *acc >= 3
            }),
        ),
    );
}
/// `get` of one key keeps that key's order (key taken from the embedded singleton).
pub fn k_get<'a>(a: SP<'a>, b: SP<'a>, s: SG<'a>) {
    out_total(a.into_keyed().get(s.map(q!(|s| s % 2))).map(q!(|v| (0, v))));
}
/// Unordered keyed stream: per-key multisets.
pub fn k_unique<'a>(a: SP<'a>, b: SP<'a>, s: SG<'a>) {
    out_unordered(a.into_keyed().unique().entries());
}

// ------------------------------------------------------------------------------------------
// C32: operators that internally call assume_ordering_trusted / assume_retries_trusted, applied to
// the weakest input type they accept.
// ------------------------------------------------------------------------------------------

type Weak<'a> = Stream<(i32, i32), P<'a>, Unbounded, NoOrder, AtLeastOnce>;
fn weakest<'a>(a: SP<'a>) -> Weak<'a> {
    a.weaken_ordering::<NoOrder>().weaken_retries::<AtLeastOnce>()
}

pub fn w_max<'a>(a: SP<'a>, b: SP<'a>, s: SG<'a>) {
    let p = a.location().clone();
    out_optional(&p, weakest(a).max());
}
pub fn w_min<'a>(a: SP<'a>, b: SP<'a>, s: SG<'a>) {
    let p = a.location().clone();
    out_optional(&p, weakest(a).min());
}
pub fn w_count<'a>(a: SP<'a>, b: SP<'a>, s: SG<'a>) {
    let p = a.location().clone();
    out_singleton(&p, a.weaken_ordering::<NoOrder>().count());
}
pub fn w_first<'a>(a: SP<'a>, b: SP<'a>, s: SG<'a>) {
    let p = a.location().clone();
    out_optional(&p, a.weaken_retries::<AtLeastOnce>().first());
}
pub fn w_last<'a>(a: SP<'a>, b: SP<'a>, s: SG<'a>) {
    let p = a.location().clone();
    out_optional(&p, a.weaken_retries::<AtLeastOnce>().last());
}
pub fn w_weaken_ordering<'a>(a: SP<'a>, b: SP<'a>, s: SG<'a>) {
    out_unordered(a.weaken_ordering::<NoOrder>());
}
pub fn w_weaken_retries<'a>(a: SP<'a>, b: SP<'a>, s: SG<'a>) {
    out_unordered(a.weaken_retries::<AtLeastOnce>());
}
pub fn w_make_total_exact<'a>(a: SP<'a>, b: SP<'a>, s: SG<'a>) {
    out_total(a.make_totally_ordered().make_exactly_once());
}
pub fn w_keyed_weaken<'a>(a: SP<'a>, b: SP<'a>, s: SG<'a>) {
    out_unordered(
        a.into_keyed().weaken_ordering::<NoOrder>().weaken_retries::<AtLeastOnce>().entries(),
    );
}
pub fn w_keyed_make_total_exact<'a>(a: SP<'a>, b: SP<'a>, s: SG<'a>) {
    out_keyed_total(a.into_keyed().make_totally_ordered().make_exactly_once());
}
pub fn w_keyed_value_counts<'a>(a: SP<'a>, b: SP<'a>, s: SG<'a>) {
    let p = a.location().clone();
    out_keyed_singleton(&p, a.into_keyed().weaken_ordering::<NoOrder>().value_counts());
}
/// Tick-scoped: `is_empty` of an unordered at-least-once batch.
pub fn w_is_empty<'a>(a: SP<'a>, b: SP<'a>, s: SG<'a>) {
    let p = a.location().clone();
    let tick = p.tick();
    out_total(
        weakest(a)
            .batch(&tick, nondet!(/** input adapter: the driver delivers the whole input in one tick */))
            .is_empty()
            .all_ticks(),
    );
}
/// Tick-scoped: `repeat_with_keys` (keys from `b`, values from the weakened `a`).
pub fn w_repeat_with_keys<'a>(a: SP<'a>, b: SP<'a>, s: SG<'a>) {
    let p = a.location().clone();
    let tick = p.tick();
    let keys = b
        .batch(&tick, nondet!(/** input adapter: the driver delivers the whole input in one tick */))
        .into_keyed()
        .first();
    out_unordered(
        weakest(a)
            .batch(&tick, nondet!(/** input adapter: the driver delivers the whole input in one tick */))
            .repeat_with_keys(keys)
            .entries()
            .all_ticks(),
    );
}
/// Keyed-singleton accessors over a keyed singleton whose physical entry order varies.
pub fn w_ks_into_singleton<'a>(a: SP<'a>, b: SP<'a>, s: SG<'a>) {
    let p = a.location().clone();
    out_singleton(
        &p,
        a.into_keyed()
            .weaken_ordering::<NoOrder>()
            .fold(q!(|| 0i32), q!(|acc, v| *acc += v, commutative = manual_proof!(/** integer sum */)))
            .into_singleton()
            .map(q!(|m| {
                let mut v: Vec<(i32, i32)> = m.into_iter().collect();
                v.sort();
                v
            })),
    );
}
pub fn w_ks_key_count<'a>(a: SP<'a>, b: SP<'a>, s: SG<'a>) {
    let p = a.location().clone();
    out_singleton(
        &p,
        a.into_keyed()
            .weaken_ordering::<NoOrder>()
            .fold(q!(|| 0i32), q!(|acc, v| *acc += v, commutative = manual_proof!(/** integer sum */)))
            .key_count(),
    );
}
pub fn w_ks_into_singleton_bounded_value<'a>(a: SP<'a>, b: SP<'a>, s: SG<'a>) {
    let p = a.location().clone();
    out_singleton(
        &p,
        a.into_keyed().first().into_singleton().map(q!(|m| {
            let mut v: Vec<(i32, i32)> = m.into_iter().collect();
            v.sort();
            v
        })),
    );
}
pub fn w_ks_key_count_bounded_value<'a>(a: SP<'a>, b: SP<'a>, s: SG<'a>) {
    let p = a.location().clone();
    out_singleton(&p, a.into_keyed().first().key_count());
}
pub fn w_ks_get_max_key<'a>(a: SP<'a>, b: SP<'a>, s: SG<'a>) {
    let p = a.location().clone();
    out_optional(&p, a.into_keyed().first().get_max_key());
}

// ------------------------------------------------------------------------------------------
// C33: producers of monotone / bounded-value collections. The `let x: <type> = ..` annotations
// make the compiler confirm which promise the library attaches to each operator.
// ------------------------------------------------------------------------------------------

pub fn m_count<'a>(a: SP<'a>, b: SP<'a>, s: SG<'a>) {
    let p = a.location().clone();
    let x: Singleton<usize, P<'a>, Monotonic> = a.count();
    out_singleton(&p, x);
}
pub fn m_count_merge<'a>(a: SP<'a>, b: SP<'a>, s: SG<'a>) {
    let p = a.location().clone();
    let x: Singleton<usize, P<'a>, Monotonic> = a.merge_unordered(b).count();
    out_singleton(&p, x);
}
pub fn m_count_join<'a>(a: SP<'a>, b: SP<'a>, s: SG<'a>) {
    let p = a.location().clone();
    let x: Singleton<usize, P<'a>, Monotonic> = a.join(b).count();
    out_singleton(&p, x);
}
pub fn m_count_unique<'a>(a: SP<'a>, b: SP<'a>, s: SG<'a>) {
    let p = a.location().clone();
    let x: Singleton<usize, P<'a>, Monotonic> = a.unique().count();
    out_singleton(&p, x);
}
pub fn m_fold_sum<'a>(a: SP<'a>, b: SP<'a>, s: SG<'a>) {
    let p = a.location().clone();
    let x: Singleton<i32, P<'a>, Monotonic> = a.fold(
        q!(|| 0i32),
        q!(|acc, (_k, v)| *acc += v, monotone = manual_proof!(/** all values are >= 0 */)),
    );
    out_singleton(&p, x);
}
pub fn m_fold_max<'a>(a: SP<'a>, b: SP<'a>, s: SG<'a>) {
    let p = a.location().clone();
    let x: Singleton<i32, P<'a>, Monotonic> = a.fold(
        q!(|| 0i32),
        q!(
            |acc, (_k, v)| {
                if v > *acc {
                    *acc = v
                }
            },
            monotone = manual_proof!(/** running maximum */)
        ),
    );
    out_singleton(&p, x);
}
pub fn m_count_map<'a>(a: SP<'a>, b: SP<'a>, s: SG<'a>) {
    let p = a.location().clone();
    let x: Singleton<usize, P<'a>, Monotonic> =
        a.count().map(q!(|c| c * 2 + 1, order_preserving = manual_proof!(/** affine with positive slope */)));
    out_singleton(&p, x);
}
pub fn m_keyed_value_counts<'a>(a: SP<'a>, b: SP<'a>, s: SG<'a>) {
    let p = a.location().clone();
    let x: KeyedSingleton<i32, usize, P<'a>, MonotonicValue> = a.into_keyed().value_counts();
    out_keyed_singleton(&p, x);
}
pub fn m_keyed_value_counts_merge<'a>(a: SP<'a>, b: SP<'a>, s: SG<'a>) {
    let p = a.location().clone();
    let x: KeyedSingleton<i32, usize, P<'a>, MonotonicValue> =
        a.into_keyed().merge_unordered(b.into_keyed()).value_counts();
    out_keyed_singleton(&p, x);
}
pub fn m_keyed_fold_monotone<'a>(a: SP<'a>, b: SP<'a>, s: SG<'a>) {
    let p = a.location().clone();
    let x: KeyedSingleton<i32, i32, P<'a>, MonotonicValue> = a.into_keyed().fold(
        q!(|| 0i32),
        q!(|acc, v| *acc += v, monotone = manual_proof!(/** all values are >= 0 */)),
    );
    out_keyed_singleton(&p, x);
}
pub fn m_keyed_fold_plain<'a>(a: SP<'a>, b: SP<'a>, s: SG<'a>) {
    let p = a.location().clone();
    let x: KeyedSingleton<i32, i32, P<'a>, MonotonicKeys> =
        a.into_keyed().fold(q!(|| 0i32), q!(|acc, v| *acc = acc.wrapping_mul(3).wrapping_sub(v)));
    out_keyed_singleton(&p, x);
}
pub fn m_keyed_value_counts_map<'a>(a: SP<'a>, b: SP<'a>, s: SG<'a>) {
    let p = a.location().clone();
    let x: KeyedSingleton<i32, i32, P<'a>, MonotonicKeys> =
        a.into_keyed().value_counts().map(q!(|c| 10 - c as i32));
    out_keyed_singleton(&p, x);
}
pub fn m_keyed_first<'a>(a: SP<'a>, b: SP<'a>, s: SG<'a>) {
    let p = a.location().clone();
    let x: KeyedSingleton<i32, i32, P<'a>, BoundedValue> = a.into_keyed().first();
    out_keyed_bounded_value_snapshots(&p, x);
}
pub fn m_keyed_first_map_filter<'a>(a: SP<'a>, b: SP<'a>, s: SG<'a>) {
    let p = a.location().clone();
    let x: KeyedSingleton<i32, i32, P<'a>, BoundedValue> =
        a.into_keyed().first().map(q!(|v| v + 5)).filter(q!(|v| *v != 6));
    out_keyed_bounded_value_snapshots(&p, x);
}
pub fn m_keyed_fold_early_stop<'a>(a: SP<'a>, b: SP<'a>, s: SG<'a>) {
    let p = a.location().clone();
    let x: KeyedSingleton<i32, i32, P<'a>, BoundedValue> = a.into_keyed().fold_early_stop(
        q!(|| 0i32),
        q!(|acc, v| {
            *acc += v;
            *acc >= 2
        }),
    );
    out_keyed_bounded_value_snapshots(&p, x);
}
pub fn m_keyed_first_entries<'a>(a: SP<'a>, b: SP<'a>, s: SG<'a>) {
    let p = a.location().clone();
    let x: KeyedSingleton<i32, i32, P<'a>, BoundedValue> = a.into_keyed().first();
    out_keyed_bounded_value(&p, x);
}

/// Snapshot history of a bounded-value keyed singleton (through the library's `into_singleton`).
pub fn out_keyed_bounded_value_snapshots<'a>(p: &P<'a>, x: KeyedSingleton<i32, i32, P<'a>, BoundedValue>) {
    out_singleton(
        p,
        x.into_singleton().map(q!(|m| {
            let mut v: Vec<(i32, i32)> = m.into_iter().collect();
            v.sort();
            v
        })),
    );
}


// ------------------------------------------------------------------------------------------
// x_*: depth-1 coverage of the remaining safe public APIs (no `nondet!` argument) of top-level
// Stream / Singleton / Optional / KeyedSingleton (C28). Keyed-stream additions are `k_*` below.
// ------------------------------------------------------------------------------------------
use hydro_lang::live_collections::keyed_stream::Generate;

fn const_ks<'a>(p: &P<'a>) -> KeyedSingleton<i32, i32, P<'a>, Bounded> {
    p.source_iter(q!(vec![(0, 5), (1, 6)])).into_keyed().first()
}

// ---- Singleton::threshold_greater_or_equal on count / monotone fold, thresholds 1..3 and `s`
pub fn x_thr_count_1<'a>(a: SP<'a>, b: SP<'a>, s: SG<'a>) {
    let p = a.location().clone();
    out_total(a.count().threshold_greater_or_equal(p.singleton(q!(1usize))).map(q!(|t| (0, t as i32))));
}
pub fn x_thr_count_2<'a>(a: SP<'a>, b: SP<'a>, s: SG<'a>) {
    let p = a.location().clone();
    out_total(a.count().threshold_greater_or_equal(p.singleton(q!(2usize))).map(q!(|t| (0, t as i32))));
}
pub fn x_thr_count_3<'a>(a: SP<'a>, b: SP<'a>, s: SG<'a>) {
    let p = a.location().clone();
    out_total(a.count().threshold_greater_or_equal(p.singleton(q!(3usize))).map(q!(|t| (0, t as i32))));
}
pub fn x_thr_count_s<'a>(a: SP<'a>, b: SP<'a>, s: SG<'a>) {
    out_total(a.count().threshold_greater_or_equal(s.map(q!(|s| s as usize))).map(q!(|t| (0, t as i32))));
}
fn monotone_sum<'a>(a: SP<'a>) -> Singleton<i32, P<'a>, Monotonic> {
    a.fold(q!(|| 0i32), q!(|acc, (_k, v)| *acc += v, monotone = manual_proof!(/** all values are >= 0 */)))
}
pub fn x_thr_fold_1<'a>(a: SP<'a>, b: SP<'a>, s: SG<'a>) {
    let p = a.location().clone();
    out_total(monotone_sum(a).threshold_greater_or_equal(p.singleton(q!(1i32))).map(q!(|t| (0, t))));
}
pub fn x_thr_fold_2<'a>(a: SP<'a>, b: SP<'a>, s: SG<'a>) {
    let p = a.location().clone();
    out_total(monotone_sum(a).threshold_greater_or_equal(p.singleton(q!(2i32))).map(q!(|t| (0, t))));
}
pub fn x_thr_fold_3<'a>(a: SP<'a>, b: SP<'a>, s: SG<'a>) {
    let p = a.location().clone();
    out_total(monotone_sum(a).threshold_greater_or_equal(p.singleton(q!(3i32))).map(q!(|t| (0, t))));
}
// ---- KeyedSingleton::threshold_greater_or_equal{,_uniform}
pub fn x_kthr_uniform_1<'a>(a: SP<'a>, b: SP<'a>, s: SG<'a>) {
    let p = a.location().clone();
    out_unordered(
        a.into_keyed().value_counts().threshold_greater_or_equal_uniform(p.singleton(q!(1usize))).entries().map(q!(|(k, t)| (k, t as i32))),
    );
}
pub fn x_kthr_uniform_2<'a>(a: SP<'a>, b: SP<'a>, s: SG<'a>) {
    let p = a.location().clone();
    out_unordered(
        a.into_keyed().value_counts().threshold_greater_or_equal_uniform(p.singleton(q!(2usize))).entries().map(q!(|(k, t)| (k, t as i32))),
    );
}
/// self: per-key counts of `a` (MonotonicValue); thresholds: first value per key of `b` (BoundedValue).
pub fn x_kthr_counts<'a>(a: SP<'a>, b: SP<'a>, s: SG<'a>) {
    out_unordered(
        a.into_keyed()
            .value_counts()
            .threshold_greater_or_equal(b.into_keyed().first().map(q!(|v| v as usize)))
            .entries()
            .map(q!(|(k, t)| (k, t as i32))),
    );
}
/// self: first value per key of `a` (BoundedValue); thresholds: first value per key of `b`.
pub fn x_kthr_first<'a>(a: SP<'a>, b: SP<'a>, s: SG<'a>) {
    out_unordered(a.into_keyed().first().threshold_greater_or_equal(b.into_keyed().first()).entries());
}

// ---- Singleton
pub fn x_sg_map<'a>(a: SP<'a>, b: SP<'a>, s: SG<'a>) {
    let p = a.location().clone();
    out_singleton(&p, a.fold(q!(|| 0i32), q!(|acc, (_k, v)| *acc = acc.wrapping_mul(3).wrapping_add(v))).map(q!(|x| x * 2 + 1)));
}
pub fn x_sg_filter_map<'a>(a: SP<'a>, b: SP<'a>, s: SG<'a>) {
    let p = a.location().clone();
    out_optional(&p, a.count().ignore_monotonic().filter_map(q!(|c| if c % 2 == 0 { Some(c as i32 + 10) } else { None })));
}
pub fn x_sg_into_optional<'a>(a: SP<'a>, b: SP<'a>, s: SG<'a>) {
    let p = a.location().clone();
    out_optional(&p, a.max().into_singleton().into_optional());
}
pub fn x_sg_not<'a>(a: SP<'a>, b: SP<'a>, s: SG<'a>) {
    let p = a.location().clone();
    out_singleton(&p, !a.first().is_some());
}
/// Bounded singleton algebra: equals / and / or / not feeding Stream::filter_if.
pub fn x_sg_bool_filter_if<'a>(a: SP<'a>, b: SP<'a>, s: SG<'a>) {
    let p = a.location().clone();
    let e1 = s.clone().equals(p.singleton(q!(1)));
    let e2 = s.equals(p.singleton(q!(2)));
    out_total(a.filter_if(e1.or(e2.clone()).and(!e2)));
}
pub fn x_sg_filter_if<'a>(a: SP<'a>, b: SP<'a>, s: SG<'a>) {
    let p = a.location().clone();
    let e1 = s.clone().equals(p.singleton(q!(1)));
    out_total(s.filter_if(e1).into_stream().map(q!(|s| (9, s))).chain(a));
}
pub fn x_sg_flat_map_ordered<'a>(a: SP<'a>, b: SP<'a>, s: SG<'a>) {
    out_total(s.flat_map_ordered(q!(|s| vec![(8, s), (9, s)])).chain(a));
}
pub fn x_sg_flatten_unordered<'a>(a: SP<'a>, b: SP<'a>, s: SG<'a>) {
    out_unordered(s.map(q!(|s| vec![(8, s), (9, s)])).flatten_unordered().chain(a));
}

// ---- Optional
pub fn x_op_map<'a>(a: SP<'a>, b: SP<'a>, s: SG<'a>) {
    let p = a.location().clone();
    out_optional(&p, a.max().map(q!(|(k, v)| (k, v + 1))));
}
pub fn x_op_filter<'a>(a: SP<'a>, b: SP<'a>, s: SG<'a>) {
    let p = a.location().clone();
    out_optional(&p, a.max().filter(q!(|(_k, v)| *v != 0)));
}
pub fn x_op_filter_map<'a>(a: SP<'a>, b: SP<'a>, s: SG<'a>) {
    let p = a.location().clone();
    out_optional(&p, a.last().filter_map(q!(|(k, v)| if v > 0 { Some(k + v) } else { None })));
}
pub fn x_op_unwrap_or<'a>(a: SP<'a>, b: SP<'a>, s: SG<'a>) {
    let p = a.location().clone();
    out_singleton(&p, a.max().unwrap_or(b.fold(q!(|| (7, 7)), q!(|acc, x| *acc = x))));
}
pub fn x_op_unwrap_or_default<'a>(a: SP<'a>, b: SP<'a>, s: SG<'a>) {
    let p = a.location().clone();
    out_singleton(&p, a.min().unwrap_or_default());
}
pub fn x_op_is_none<'a>(a: SP<'a>, b: SP<'a>, s: SG<'a>) {
    let p = a.location().clone();
    out_singleton(&p, a.filter(q!(|&(_k, v)| v == 2)).first().is_none());
}
pub fn x_op_into_keyed_singleton<'a>(a: SP<'a>, b: SP<'a>, s: SG<'a>) {
    let p = a.location().clone();
    out_keyed_singleton(&p, a.max().into_keyed_singleton());
}
/// Bounded optional algebra: filter / zip / is_some_and_equals / filter_if / flatten.
pub fn x_op_bounded<'a>(a: SP<'a>, b: SP<'a>, s: SG<'a>) {
    let p = a.location().clone();
    let o1 = s.clone().filter(q!(|s| *s == 1)); // Some(1) iff s == 1
    let z = o1.clone().zip(s.clone()); // Some((1, 1)) iff s == 1
    let same = o1.clone().is_some_and_equals(p.singleton(q!(1)).filter(q!(|_| true)));
    out_total(z.filter_if(same).into_stream().chain(o1.map(q!(|s| vec![(7, s)])).flatten_ordered()).chain(a));
}

// ---- KeyedSingleton
pub fn x_ks_values<'a>(a: SP<'a>, b: SP<'a>, s: SG<'a>) {
    out_unordered(a.into_keyed().first().values().map(q!(|v| (0, v))));
}
pub fn x_ks_keys<'a>(a: SP<'a>, b: SP<'a>, s: SG<'a>) {
    out_unordered(a.into_keyed().first().keys().map(q!(|k| (k, 0))));
}
pub fn x_ks_map_with_key_inspect<'a>(a: SP<'a>, b: SP<'a>, s: SG<'a>) {
    out_unordered(
        a.into_keyed().first().map_with_key(q!(|(k, v)| v + 10 * k)).inspect(q!(|_v| {})).inspect_with_key(q!(|_kv| {})).entries(),
    );
}
pub fn x_ks_filter_map<'a>(a: SP<'a>, b: SP<'a>, s: SG<'a>) {
    out_unordered(a.into_keyed().first().filter_map(q!(|v| if v > 0 { Some(v - 1) } else { None })).entries());
}
pub fn x_ks_filter_key_not_in<'a>(a: SP<'a>, b: SP<'a>, s: SG<'a>) {
    let p = a.location().clone();
    out_unordered(a.into_keyed().first().filter_key_not_in(p.source_iter(q!(vec![1]))).entries());
}
pub fn x_ks_into_keyed_stream<'a>(a: SP<'a>, b: SP<'a>, s: SG<'a>) {
    out_keyed_total(a.into_keyed().first().into_keyed_stream());
}
pub fn x_ks_unbounded_map_with_key<'a>(a: SP<'a>, b: SP<'a>, s: SG<'a>) {
    let p = a.location().clone();
    out_keyed_singleton(
        &p,
        a.into_keyed().fold(q!(|| 0i32), q!(|acc, v| *acc = acc.wrapping_mul(3).wrapping_add(v))).map_with_key(q!(|(k, v)| v + 1000 * k)),
    );
}
/// Bounded keyed singleton: get / join_keyed_stream / join_keyed_singleton / lookup_keyed_singleton.
pub fn x_ks_get<'a>(a: SP<'a>, b: SP<'a>, s: SG<'a>) {
    let p = a.location().clone();
    out_total(const_ks(&p).get(s.map(q!(|s| s % 2))).into_stream().map(q!(|v| (9, v))).chain(a));
}
pub fn x_ks_join_keyed_stream<'a>(a: SP<'a>, b: SP<'a>, s: SG<'a>) {
    let p = a.location().clone();
    out_keyed_total(const_ks(&p).join_keyed_stream(a.into_keyed()).map(q!(|(w, v)| v * 10 + w)));
}
pub fn x_ks_join_lookup<'a>(a: SP<'a>, b: SP<'a>, s: SG<'a>) {
    let p = a.location().clone();
    let other = p.source_iter(q!(vec![(1, 3), (2, 4)])).into_keyed().first();
    let lookup = p.source_iter(q!(vec![(5, 50)])).into_keyed().first();
    let joined = const_ks(&p).join_keyed_singleton(other).entries().map(q!(|(k, (v, w))| (k, v * 10 + w)));
    let looked = const_ks(&p).lookup_keyed_singleton(lookup).entries().map(q!(|(k, (v, o))| (k + 100, v * 100 + o.unwrap_or(-1))));
    out_unordered(joined.chain(looked).chain(a));
}

// ---- Stream
pub fn x_flatten_ordered<'a>(a: SP<'a>, b: SP<'a>, s: SG<'a>) {
    out_total(a.map(q!(|(k, v)| vec![(k, v), (1 - k, v + 10)])).flatten_ordered());
}
pub fn x_flatten_unordered<'a>(a: SP<'a>, b: SP<'a>, s: SG<'a>) {
    out_unordered(a.map(q!(|(k, v)| vec![(k, v), (1 - k, v + 10)])).flatten_unordered());
}
pub fn x_partition_true<'a>(a: SP<'a>, b: SP<'a>, s: SG<'a>) {
    // note: simply dropping the false side makes generate_embedded panic ("`partition` must have at
    // least 2 output(s), actually has 1"), so it is consumed by a no-op for_each
    let (t, f) = a.partition(q!(|&(_k, v)| v != 1));
    f.for_each(q!(|_| {}));
    out_total(t);
}
pub fn x_partition_merge<'a>(a: SP<'a>, b: SP<'a>, s: SG<'a>) {
    let (t, f) = a.partition(q!(|&(_k, v)| v != 1));
    out_unordered(t.map(q!(|(k, v)| (k, v + 100))).merge_unordered(f));
}
pub fn x_generator<'a>(a: SP<'a>, b: SP<'a>, s: SG<'a>) {
    out_total(a.generator(
        q!(|| 0i32),
        q!(|acc, (k, v)| {
            *acc += v;
            if *acc >= 4 {
                Generate::Return((k, *acc))
            } else if v == 0 {
                Generate::Continue
            } else {
                Generate::Yield((k, *acc))
            }
        }),
    ));
}
pub fn x_atomic_roundtrip<'a>(a: SP<'a>, b: SP<'a>, s: SG<'a>) {
    out_total(a.ir_node_named("named").atomic().end_atomic());
}
pub fn x_bounded_nested_loop<'a>(a: SP<'a>, b: SP<'a>, s: SG<'a>) {
    let p = a.location().clone();
    let l = p.source_iter(q!(vec![(0, 1), (1, 2)])).make_bounded();
    let r = p.source_iter(q!(vec![(0, 3), (0, 4)]));
    out_total(
        l.cross_product_nested_loop(r).map(q!(|((k1, v1), (k2, v2))| (k1 + 2 * k2, v1 * 10 + v2))).chain(a).weaken_boundedness::<Unbounded>(),
    );
}

// ---- KeyedStream additions (also in the C29 keyed table)
pub fn x_k_values<'a>(a: SP<'a>, b: SP<'a>, s: SG<'a>) {
    out_unordered(a.into_keyed().values().map(q!(|v| (0, v))));
}
pub fn k_prefix_drop<'a>(a: SP<'a>, b: SP<'a>, s: SG<'a>) {
    out_unordered(a.into_keyed().prefix_key(q!(|kv| kv.1 % 2)).drop_key_prefix().entries());
}
pub fn k_filter_with_key<'a>(a: SP<'a>, b: SP<'a>, s: SG<'a>) {
    out_keyed_total(a.into_keyed().filter_with_key(q!(|kv| kv.0 + kv.1 != 1)));
}
pub fn k_filter_map_with_key<'a>(a: SP<'a>, b: SP<'a>, s: SG<'a>) {
    out_keyed_total(a.into_keyed().filter_map_with_key(q!(|(k, v)| if v > 0 { Some(v + 10 * k) } else { None })));
}
pub fn k_inspect_with_key<'a>(a: SP<'a>, b: SP<'a>, s: SG<'a>) {
    out_keyed_total(a.into_keyed().inspect_with_key(q!(|_kv| {})));
}
pub fn k_flatten_ordered<'a>(a: SP<'a>, b: SP<'a>, s: SG<'a>) {
    out_keyed_total(a.into_keyed().map(q!(|v| vec![v, v + 10])).flatten_ordered());
}
pub fn k_flat_map_flatten_unordered<'a>(a: SP<'a>, b: SP<'a>, s: SG<'a>) {
    out_unordered(a.into_keyed().flat_map_unordered(q!(|v| vec![vec![v], vec![v + 10]])).flatten_unordered().entries());
}
pub fn k_generator<'a>(a: SP<'a>, b: SP<'a>, s: SG<'a>) {
    out_keyed_total(a.into_keyed().generator(
        q!(|| 0i32),
        q!(|acc, v| {
            *acc += v;
            if *acc >= 3 {
                Generate::Return(*acc)
            } else if v == 0 {
                Generate::Continue
            } else {
                Generate::Yield(*acc)
            }
        }),
    ));
}
pub fn k_atomic_roundtrip<'a>(a: SP<'a>, b: SP<'a>, s: SG<'a>) {
    out_keyed_total(a.into_keyed().atomic().end_atomic());
}

// ------------------------------------------------------------------------------------------
// Scan-family operators INSIDE an atomic region (`atomic() .. end_atomic()`): the accumulator
// (for keyed streams: the per-key state map) must survive tick boundaries exactly as outside.
// ------------------------------------------------------------------------------------------
pub fn x_at_scan<'a>(a: SP<'a>, b: SP<'a>, s: SG<'a>) {
    out_total(
        a.atomic()
            .scan(
                q!(|| 0i32),
                q!(|acc, (k, v)| {
                    *acc += v;
                    Some((k, *acc))
                }),
            )
            .end_atomic(),
    );
}
pub fn x_at_limit<'a>(a: SP<'a>, b: SP<'a>, s: SG<'a>) {
    out_total(a.atomic().limit(q!(2)).end_atomic());
}
pub fn x_at_enumerate<'a>(a: SP<'a>, b: SP<'a>, s: SG<'a>) {
    out_total(a.atomic().enumerate().map(q!(|(i, (k, v))| (k, v * 10 + i as i32))).end_atomic());
}
pub fn x_at_generator<'a>(a: SP<'a>, b: SP<'a>, s: SG<'a>) {
    out_total(
        a.atomic()
            .generator(
                q!(|| 0i32),
                q!(|acc, (k, v)| {
                    *acc += v;
                    if *acc >= 4 {
                        Generate::Return((k, *acc))
                    } else if v == 0 {
                        Generate::Continue
                    } else {
                        Generate::Yield((k, *acc))
                    }
                }),
            )
            .end_atomic(),
    );
}
/// `first` inside an atomic region; the optional is exported by one atomic snapshot per tick.
pub fn x_at_first<'a>(a: SP<'a>, b: SP<'a>, s: SG<'a>) {
    let p = a.location().clone();
    let tick = p.tick();
    a.atomic()
        .first()
        .snapshot_atomic(&tick, nondet!(/** output adapter: snapshot per tick, last value wins */))
        .into_singleton()
        .all_ticks()
        .map(q!(|v| crate::enc::enc(v)))
        .embedded_output("out");
}
pub fn k_at_scan<'a>(a: SP<'a>, b: SP<'a>, s: SG<'a>) {
    out_keyed_total(
        a.into_keyed()
            .atomic()
            .scan(
                q!(|| 0i32),
                q!(|acc, v| {
                    *acc = acc.wrapping_mul(3).wrapping_add(v);
                    Some(*acc)
                }),
            )
            .end_atomic(),
    );
}
pub fn k_at_enumerate<'a>(a: SP<'a>, b: SP<'a>, s: SG<'a>) {
    out_keyed_total(a.into_keyed().atomic().enumerate().map(q!(|(i, v)| v * 10 + i as i32)).end_atomic());
}
pub fn k_at_limit<'a>(a: SP<'a>, b: SP<'a>, s: SG<'a>) {
    out_keyed_total(a.into_keyed().atomic().limit(q!(1)).end_atomic());
}
pub fn k_at_generator<'a>(a: SP<'a>, b: SP<'a>, s: SG<'a>) {
    out_keyed_total(
        a.into_keyed()
            .atomic()
            .generator(
                q!(|| 0i32),
                q!(|acc, v| {
                    *acc += v;
                    if *acc >= 3 {
                        Generate::Return(*acc)
                    } else if v == 0 {
                        Generate::Continue
                    } else {
                        Generate::Yield(*acc)
                    }
                }),
            )
            .end_atomic(),
    );
}
pub fn k_at_first<'a>(a: SP<'a>, b: SP<'a>, s: SG<'a>) {
    let p = a.location().clone();
    out_keyed_bounded_value(&p, a.into_keyed().atomic().first().end_atomic());
}
pub fn k_at_fold_early_stop<'a>(a: SP<'a>, b: SP<'a>, s: SG<'a>) {
    let p = a.location().clone();
    out_keyed_bounded_value(
        &p,
        a.into_keyed()
            .atomic()
            .fold_early_stop(
                q!(|| 0i32),
                q!(|acc, v| {
                    *acc = acc.wrapping_mul(3).wrapping_add(v);
                    *acc >= 3
                }),
            )
            .end_atomic(),
    );
}
