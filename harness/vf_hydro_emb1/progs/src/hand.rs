use hydro_lang::live_collections::stream::{NoOrder, TotalOrder};
use hydro_lang::prelude::*;

use crate::enc::enc;

pub type P<'a> = Process<'a, ()>;
pub type SP<'a> = Stream<(i32, i32), P<'a>, Unbounded>;
pub type SG<'a> = Singleton<i32, P<'a>, Bounded>;

pub fn h_map<'a>(a: SP<'a>, _b: SP<'a>, _s: SG<'a>) {
    a.map(q!(|(k, v)| (k, v + 1))).map(q!(|x| enc(x))).embedded_output("out");
}

pub fn h_join<'a>(a: SP<'a>, b: SP<'a>, _s: SG<'a>) {
    a.join(b)
        .map(q!(|x| enc(x)))
        .assume_ordering::<TotalOrder>(nondet!(/** output adapter */))
        .embedded_output("out");
}

pub fn h_fold<'a>(a: SP<'a>, _b: SP<'a>, _s: SG<'a>) {
    let tick = a.location().tick();
    a.fold(q!(|| 0i32), q!(|acc, (_k, v)| *acc = *acc * 3 + v))
        .snapshot(&tick, nondet!(/** output adapter */))
        .all_ticks()
        .map(q!(|x| enc(x)))
        .embedded_output("out");
}

pub fn h_keyed_fold<'a>(a: SP<'a>, _b: SP<'a>, _s: SG<'a>) {
    let tick = a.location().tick();
    a.into_keyed()
        .fold(q!(|| 0i32), q!(|acc, v| *acc = *acc * 3 + v))
        .snapshot(&tick, nondet!(/** output adapter */))
        .entries()
        .all_ticks()
        .map(q!(|x| enc(x)))
        .assume_ordering::<TotalOrder>(nondet!(/** output adapter */))
        .embedded_output("out");
}

pub fn h_cross_singleton<'a>(a: SP<'a>, _b: SP<'a>, s: SG<'a>) {
    a.cross_singleton(s).map(q!(|x| enc(x))).embedded_output("out");
}

pub fn h_unordered<'a>(a: SP<'a>, b: SP<'a>, _s: SG<'a>) {
    let m: Stream<_, _, _, NoOrder> = a.merge_unordered(b);
    m.map(q!(|x| enc(x)))
        .assume_ordering::<TotalOrder>(nondet!(/** output adapter */))
        .embedded_output("out");
}
