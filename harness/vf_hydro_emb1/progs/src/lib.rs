#[cfg(stageleft_runtime)]
hydro_lang::setup!();

pub mod enc;
pub mod adapt;
pub mod family;
pub mod hand;
