//! Uniform encoding of every observable element type into `Vec<i64>` so that all generated
//! programs share one output type.
pub trait Enc {
    fn enc(&self, out: &mut Vec<i64>);
}
impl Enc for i32 {
    fn enc(&self, out: &mut Vec<i64>) {
        out.push(*self as i64)
    }
}
impl Enc for usize {
    fn enc(&self, out: &mut Vec<i64>) {
        out.push(*self as i64)
    }
}
impl Enc for bool {
    fn enc(&self, out: &mut Vec<i64>) {
        out.push(*self as i64)
    }
}
impl<A: Enc, B: Enc> Enc for (A, B) {
    fn enc(&self, out: &mut Vec<i64>) {
        self.0.enc(out);
        self.1.enc(out);
    }
}
impl<A: Enc> Enc for Option<A> {
    fn enc(&self, out: &mut Vec<i64>) {
        match self {
            None => out.push(-1000),
            Some(a) => {
                out.push(-1001);
                a.enc(out)
            }
        }
    }
}
impl<A: Enc> Enc for Vec<A> {
    fn enc(&self, out: &mut Vec<i64>) {
        out.push(-2000 - self.len() as i64);
        for a in self {
            a.enc(out)
        }
    }
}
pub fn enc<T: Enc>(t: T) -> Vec<i64> {
    let mut v = vec![];
    t.enc(&mut v);
    v
}
