fn main() {
    hydro_build_utils::emit_nightly_configuration!();
    stageleft_tool::gen_final!();
}
