#!/bin/bash
# MANIFEST.setup_cmd: offline build of every harness crate (run once after a fresh restore).
set -e
cd "$(dirname "$0")"
export CARGO_NET_OFFLINE=true
unset RUSTFLAGS
python3 tools/setup_build.py
