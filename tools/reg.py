#!/usr/bin/env python3
"""tools/reg.py engine <name> <crate> <bin> <kind> [profile] | prop <ID> <engine> <technique> <level_text> <level_note>"""
import json, sys, os
V = os.path.dirname(os.path.dirname(os.path.abspath(__file__)))
p = os.path.join(V, "checks.json")
C = json.load(open(p))
if sys.argv[1] == "engine":
    _, _, name, crate, binn, kind, *rest = sys.argv
    C["engines"][name] = {"crate": crate, "bin": binn, "kind": kind, "profile": rest[0] if rest else "release"}
elif sys.argv[1] == "prop":
    _, _, pid, eng, tech, text, note = sys.argv
    C["properties"][pid] = {"claimed": True, "engine": eng, "technique": tech, "level_text": text, "level_note": note}
json.dump(C, open(p, "w"), indent=1)
