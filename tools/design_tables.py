#!/usr/bin/env python3
"""Regenerate the auto-generated tables of DESIGN.md (between AUTO markers) from known_findings.json and seeded/*/meta.json."""
import json, glob, os, re
V=os.path.dirname(os.path.dirname(os.path.abspath(__file__)))
k=json.load(open(f"{V}/known_findings.json"))
out=["<!-- AUTO:BEGIN -->","","#### Repaired defects (`fix:` commits in /repo; from known_findings.json)",""]
for f in k["fixed"]:
    m=re.match(r"fixed: property=(C\d+) (\w+) (.*)",f)
    out.append(f"* **{m.group(1)}** `{m.group(2)}` — {m.group(3)}")
out+=["","#### Known findings (genuine, not repaired)",""]
for f in k["findings"]:
    out.append(f"* **{f['property']}** — {f['what']}  \n  keys: "+", ".join(f"`{x}`" for x in f["keys"]))
out+=["","#### Independently seeded changes (`/verif/seeded/<id>/`)","","| seed | property | needs to manifest | result |","|---|---|---|---|"]
for p in sorted(glob.glob(f"{V}/seeded/*/meta.json")):
    m=json.load(open(p))
    out.append(f"| {m['seed']} | {m['breaks_property']} | {m['needs_to_manifest']} | {m['check_result']} |")
C=json.load(open(f"{V}/checks.json"))
out+=["","#### Checks as built (from checks.json: what each check enumerates and assumes)","","| property | engine | technique | what is covered | assumptions / trusted base |","|---|---|---|---|---|"]
for pid in sorted(C["properties"]):
    p=C["properties"][pid]
    if p.get("claimed"):
        out.append(f"| {pid} | {p['engine']} | {p['technique']} | {p['level_text']} | {p['level_note']} |")
    else:
        out.append(f"| {pid} | — | not applicable | {p.get('reason','')} | |")
out+=["","<!-- AUTO:END -->"]
s=open(f"{V}/DESIGN.md").read()
blk="\n".join(out)
if "<!-- AUTO:BEGIN -->" in s:
    s=re.sub(r"<!-- AUTO:BEGIN -->.*<!-- AUTO:END -->",lambda _:blk,s,flags=re.S)
else:
    s+="\n### 10.4 Generated tables (tools/design_tables.py)\n\n"+blk+"\n"
open(f"{V}/DESIGN.md","w").write(s)
print("ok")
