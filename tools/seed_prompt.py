#!/usr/bin/env python3
"""Print the prompt for an independent mutation-seeding sub-agent: tools/seed_prompt.py C16 C16a"""
import json, sys
pid, name = sys.argv[1], sys.argv[2]
p = [json.loads(l) for l in open('/verif/properties.jsonl') if json.loads(l)['id'] == pid][0]
print(f"""You have your own scratch git worktree of the Rust repository hydro-project/hydro at /tmp/seed/{name} (a cargo workspace; it builds OFFLINE: always pass --offline / set CARGO_NET_OFFLINE=true; there is no network). Work ONLY inside /tmp/seed/{name}. Do NOT read, list or use anything under /verif or /root/.vp, and do not touch /repo. The machine is shared and heavily loaded: build only the crates you need (`cargo test -p <crate> --offline`, never the whole workspace), and set `CARGO_TARGET_DIR=/tmp/seed/{name}/target`.

PROPERTY ({pid}: {p['title']}):
{p['statement']}
(The property quantifies over: {p['quantifier']['text']})
Code it is anchored in: {', '.join(p['anchors']['files'])}

TASK: produce ONE realistic change to the repository's SOURCE code (not to its tests) that BREAKS this property, while the repository still compiles and its EXISTING tests of the affected crate(s) still pass (run them to be sure and say exactly which commands you ran). The change must be the kind of thing a plausible refactor or optimisation could introduce, and it must need something SPECIFIC to manifest — a particular interleaving or poll/pending pattern, a fault at a particular point, a multi-step sequence of operations, an unusual input, or two cooperating sites that each look fine alone — NOT something ordinary use or the existing tests would expose at once. Prefer changes in shared mutable state, cursor/offset/index logic, ordering of two steps, a boundary condition, or a forgotten case.

DELIVERABLES in /tmp/seed/{name}/OUT/ :
  patch.diff   — `git diff` of your source change only (must apply with `git apply` to a clean checkout of the same commit)
  demo/        — a demonstration that FAILS with the change and PASSES without it: a new test file or a tiny program plus the exact command to run it (it may add a test file to the worktree; keep it separate from patch.diff), 
  README.md    — what the change is, why it breaks the property, exactly what is needed for it to manifest, which existing test commands you ran (and that they pass with the change), and the demo commands with their observed output with and without the change.
Verify everything yourself: (1) existing tests of the touched crate(s) pass WITH the change; (2) the demo fails WITH the change; (3) the demo passes WITHOUT it. IMPORTANT: never use `git stash` (the stash is shared by all worktrees of this repository and other people are using it concurrently): to test without your change do `git diff -- <source paths> > OUT/patch.diff && git apply -R OUT/patch.diff`, and re-apply with `git apply OUT/patch.diff`. Finish by printing the README.""")
