#!/bin/bash
# Scratch copies for trying property-breaking changes without touching /repo or /verif.
#   tools/scratch.sh new <name> [crate-to-preseed-target ...]
#       -> /tmp/vfs/<name>/repo   (git worktree of /repo HEAD, detached)
#          /tmp/vfs/<name>/verif  (copy of /verif's harness sources, check driver, tools)
#       The harness crates reference the repo by RELATIVE path (../../../repo/..), so the copy
#       builds against the scratch worktree. Run: /tmp/vfs/<name>/verif/check <ID> quick
#   tools/scratch.sh rm <name>
set -e
cmd=$1; name=$2; shift 2 || true
base=/tmp/vfs/$name
case "$cmd" in
 new)
  mkdir -p "$base"
  git -C /repo worktree add -q --detach "$base/repo" HEAD >/dev/null 2>&1
  mkdir -p "$base/verif"
  rsync -a --exclude 'target' --exclude 'target-*' --exclude '.git' --exclude 'evidence' --exclude 'replays' /verif/ "$base/verif/"
  mkdir -p "$base/verif/evidence"
  for c in "$@"; do
    if [ -d "/verif/harness/$c/target" ]; then cp -a "/verif/harness/$c/target" "$base/verif/harness/$c/target"; fi
    # simulator engines: hydro's trybuild prebuild fingerprints contain absolute paths, a copied one fails with
    # "unexpected recompilation in final build" -> drop the simulator's own build output (it is rebuilt on demand)
    case "$c" in vf_hydro_sim*) rm -rf "$base/verif/harness/$c/target/release/build/$c-"* "$base/verif/harness/$c/target/release/.fingerprint/$c-"* ;; esac
    rm -rf "$base/verif/harness/$c/target/jobs" "$base/verif/harness/$c/target/debug" "$base/verif/harness/$c/target/hydro_trybuild" "$base/verif/harness/$c/target/build-coordination.log"
  done
  echo "$base"
  ;;
 rm)
  git -C /repo worktree remove --force "$base/repo" 2>/dev/null || true
  rm -rf "$base"
  git -C /repo worktree prune
  ;;
 *) echo "usage: scratch.sh new|rm <name>"; exit 2;;
esac
