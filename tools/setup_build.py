#!/usr/bin/env python3
"""Build every engine listed in checks.json (offline)."""
import json, os, subprocess, sys
V = os.path.dirname(os.path.dirname(os.path.abspath(__file__)))
C = json.load(open(os.path.join(V, "checks.json")))
env = dict(os.environ, CARGO_NET_OFFLINE="true", VERIF_DIR=V)
env.pop("RUSTFLAGS", None)
bad = 0
done = set()
for name, e in C["engines"].items():
    crate = os.path.join(V, "harness", e["crate"])
    prof = e.get("profile", "release")
    key = (crate, prof)
    if key in done:
        continue
    done.add(key)
    cmd = ["cargo", "build", "--offline", "--bins"]
    if prof == "release":
        cmd.append("--release")
    print("+", " ".join(cmd), "in", crate, flush=True)
    ee = dict(env); ee.update(e.get("env", {}))
    ee["CARGO_TARGET_DIR"] = e.get("target_dir", os.path.join(crate, "target"))
    for k in ("CARGO_BUILD_TARGET_DIR", "CARGO_BUILD_TARGET", "CARGO_ENCODED_RUSTFLAGS", "CARGO_BUILD_RUSTFLAGS", "RUSTC_WRAPPER"):
        ee.pop(k, None)
    r = subprocess.run(cmd, cwd=crate, env=ee)
    if r.returncode != 0:
        bad += 1
sys.exit(1 if bad else 0)
