#!/bin/bash
# tools/try_seed.sh <patch.diff> <PROP> <engine-crate> [tier]   -> applies the patch in a scratch copy, runs the check, cleans up
patch=$(readlink -f "$1"); prop=$2; crate=$3; tier=${4:-quick}
name=seed_$$
/verif/tools/scratch.sh new $name $crate >/dev/null || exit 2
cd /tmp/vfs/$name/repo && git apply "$patch" || { echo "PATCH DOES NOT APPLY"; /verif/tools/scratch.sh rm $name; exit 2; }
cd /tmp/vfs/$name/verif && ./check $prop $tier 2>&1 | grep -E "VIOLATION|what:|KNOWN-FINDING|MACHINERY|^\[vf_" | cut -c1-400
rc=${PIPESTATUS[0]}
echo "check exit=$rc"
/verif/tools/scratch.sh rm $name
exit $rc
