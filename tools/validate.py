import json, sys, jsonschema
jsonschema.validate(json.load(open(sys.argv[1])), json.load(open(sys.argv[2])))
