#!/usr/bin/env python3
"""Generate /verif/MANIFEST.json from /verif/checks.json (single source of truth)."""
import json, os, subprocess, shutil
V = os.path.dirname(os.path.dirname(os.path.abspath(__file__)))
C = json.load(open(os.path.join(V, "checks.json")))
props = [json.loads(l)["id"] for l in open(os.path.join(V, "properties.jsonl"))]
checks, na = [], []
for pid in props:
    s = C["properties"].get(pid, {"claimed": False, "reason": "check not built yet"})
    if not s.get("claimed"):
        na.append({"property_id": pid, "reason": s.get("reason", "check not built yet")})
        continue
    e = s["engine"]
    checks.append({
        "property_id": pid,
        "quick_cmd": f"./check {pid} quick",
        "thorough_cmd": f"./check {pid} thorough",
        "evidence_file": f"/verif/evidence/{pid}.json",
        "replay_cmd_template": f"./check {pid} --replay {{path}}",
        "engine": e,
        "level_claimed": {"category": "model_checking", "text": s["level_text"],
                          "design_ref": s.get("design_ref", f"DESIGN.md §3 {pid}")},
        "level_note": s["level_note"],
        "technique": s["technique"],
    })
engines = []
for name, e in C["engines"].items():
    engines.append({"name": name, "path": f"/verif/harness/{e['crate']}",
                    "serves_properties": [p for p in props if C["properties"].get(p, {}).get("claimed") and C["properties"][p]["engine"] == name],
                    "kind_free_text": e["kind"]})
M = {
    "version": 1,
    "setup_cmd": "./setup.sh",
    "hooks": C["hooks"],
    "engines": engines,
    "checks": checks,
    "notes": C.get("notes", ""),
    "not_applicable": na,
}
json.dump(M, open(os.path.join(V, "MANIFEST.json"), "w"), indent=1)
if shutil.which("python3-vt"):
    subprocess.run(["python3-vt", os.path.join(V, "tools", "validate.py"), os.path.join(V, "MANIFEST.json"),
                    os.path.join(V, "tools", "MANIFEST.schema.json")], check=True)
print(f"MANIFEST.json: {len(checks)} checks, {len(na)} not_applicable")
