#!/bin/bash
# tools/confirm_seed.sh <seed-worktree> <crate> <demo test name> [extra cargo args]
# Confirms in the seed's own worktree: existing tests pass WITH the change; demo fails WITH and passes WITHOUT.
wt=$1; crate=$2; demo=$3; shift 3
cd $wt || exit 2
export CARGO_TARGET_DIR=$wt/target CARGO_NET_OFFLINE=true RUST_BACKTRACE=0
git stash -q 2>/dev/null; git stash drop -q 2>/dev/null   # ensure clean of source edits? (no: keep untracked demo files)
git checkout -q -- . ; git apply OUT/patch.diff || exit 2
echo "== existing tests WITH change"; cargo test -p $crate --offline "$@" -- --skip ${demo} 2>&1 | grep -E "^test result|FAILED|panicked" | head -8
echo "== demo WITH change (must fail)"; cargo test -p $crate --offline "$@" --test $demo 2>&1 | grep -E "^test result|FAILED" | head -4
git checkout -q -- .
echo "== demo WITHOUT change (must pass)"; cargo test -p $crate --offline "$@" --test $demo 2>&1 | grep -E "^test result|FAILED" | head -4
