#!/bin/bash
# tools/archive_seed.sh <name> <PROP> "<needs>" "<what I ran>" "<result>"
n=$1; d=/verif/seeded/$n; mkdir -p $d
cp /tmp/seed/$n/OUT/patch.diff $d/; cp -r /tmp/seed/$n/OUT/demo $d/ 2>/dev/null; cp /tmp/seed/$n/OUT/README.md $d/ 2>/dev/null
python3 - "$@" <<'PY'
import json,sys
n,prop,needs,ran,res=sys.argv[1:6]
json.dump({"seed":n,"breaks_property":prop,"needs_to_manifest":needs,"confirmed_by_lead":ran,"check_result":res,"base_commit":"/repo HEAD at seeding time"},open(f"/verif/seeded/{n}/meta.json","w"),indent=1)
PY
